// Facts for C03: for every function whose crash-freedom is modelled, the list of
// its index / slice / division expressions and of the `if` conditions that
// mention len(...), in source order, as the working tree has them now; plus the
// opcode / prefix / size constants the models use.  No verdicts: the lemmas in
// lean/ElaVerif/Props/C03.lean compare these lists with the ones the models were
// written against, so a new unguarded access shows up as a stale lemma.
package main

import (
	"fmt"
	"go/ast"
	"go/token"
	"strings"

	"elaverif/extract/ex"

	"github.com/elastos/Elastos.ELA/common"
	"github.com/elastos/Elastos.ELA/core/contract"
	"github.com/elastos/Elastos.ELA/core/contract/program"
	"github.com/elastos/Elastos.ELA/crypto"
	"github.com/elastos/Elastos.ELA/vm"
)

func isConst(e ast.Expr) bool {
	switch v := e.(type) {
	case *ast.BasicLit:
		return true
	case *ast.ParenExpr:
		return isConst(v.X)
	}
	return false
}

// single-value type assertions (x.(T) outside a comma-ok assignment or a type switch) panic on a mismatch
func safeAsserts(body ast.Node) map[*ast.TypeAssertExpr]bool {
	safe := map[*ast.TypeAssertExpr]bool{}
	ast.Inspect(body, func(n ast.Node) bool {
		switch v := n.(type) {
		case *ast.AssignStmt:
			if len(v.Lhs) == 2 && len(v.Rhs) == 1 {
				if ta, ok := v.Rhs[0].(*ast.TypeAssertExpr); ok {
					safe[ta] = true
				}
			}
		case *ast.ValueSpec:
			if len(v.Names) == 2 && len(v.Values) == 1 {
				if ta, ok := v.Values[0].(*ast.TypeAssertExpr); ok {
					safe[ta] = true
				}
			}
		}
		return true
	})
	return safe
}

func accesses(f *ex.File, name string, allIfs bool) []string {
	return accessesOf(f, f.MustFunc(name), allIfs)
}

func accessesOf(f *ex.File, fd *ast.FuncDecl, allIfs bool) []string {
	var res []string
	if fd.Body == nil {
		return res
	}
	safe := safeAsserts(fd.Body)
	ast.Inspect(fd.Body, func(n ast.Node) bool {
		switch v := n.(type) {
		case *ast.TypeAssertExpr:
			if v.Type != nil && !safe[v] {
				res = append(res, "assert "+f.Src(v))
			}
		case *ast.IndexExpr:
			res = append(res, "idx "+f.Src(v))
		case *ast.SliceExpr:
			res = append(res, "slice "+f.Src(v))
		case *ast.BinaryExpr:
			if (v.Op == token.REM || v.Op == token.QUO) && !isConst(v.Y) {
				res = append(res, "div "+f.Src(v))
			}
		case *ast.IfStmt:
			c := f.Src(v.Cond)
			if allIfs || strings.Contains(c, "len(") || strings.Contains(c, "nil") {
				res = append(res, "guard "+c)
			}
		case *ast.ForStmt:
			if v.Cond != nil {
				res = append(res, "for "+f.Src(v.Cond))
			}
		}
		return true
	})
	return res
}

func main() {
	ex.Header("C03")
	ex.DefNat("PUSH1", vm.PUSH1)
	ex.DefNat("PUSH16", vm.PUSH16)
	ex.DefNat("CHECKSIG", vm.CHECKSIG)
	ex.DefNat("CHECKMULTISIG", vm.CHECKMULTISIG)
	ex.DefNat("cryptoPUSH1", crypto.PUSH1)
	ex.DefNat("STANDARD", common.STANDARD)
	ex.DefNat("MULTISIG", common.MULTISIG)
	ex.DefNat("CROSSCHAIN", common.CROSSCHAIN)
	ex.DefNat("PrefixStandard", int(contract.PrefixStandard))
	ex.DefNat("PrefixMultiSig", int(contract.PrefixMultiSig))
	ex.DefNat("PrefixCrossChain", int(contract.PrefixCrossChain))
	ex.DefNat("PrefixDeposit", int(contract.PrefixDeposit))
	ex.DefNat("MinProgramCodeSize", program.MinProgramCodeSize)
	ex.DefNat("MaxProgramCodeSize", program.MaxProgramCodeSize)
	ex.DefNat("SignatureScriptLength", crypto.SignatureScriptLength)
	ex.DefNat("PublicKeyScriptLength", crypto.PublicKeyScriptLength)
	ex.DefNat("MinMultiSignCodeLength", crypto.MinMultiSignCodeLength)
	fmt.Println()
	type item struct{ file, fn, def string }
	items := []item{
		{"core/contract/common.go", "IsStandard", "isStandard"},
		{"core/contract/common.go", "IsSchnorr", "isSchnorr"},
		{"core/contract/common.go", "IsMultiSig", "isMultiSig"},
		{"blockchain/validation.go", "RunPrograms", "runPrograms"},
		{"blockchain/validation.go", "CheckStandardSignature", "checkStandardSignature"},
		{"blockchain/validation.go", "checkSchnorrSignatures", "checkSchnorrSignatures"},
		{"blockchain/validation.go", "checkCrossChainSignatures", "checkCrossChainSignatures"},
		{"crypto/crypto.go", "CheckMultiSigSignatures", "checkMultiSigSignatures"},
		{"crypto/crypto.go", "VerifyMultisigSignatures", "verifyMultisigSignatures"},
		{"crypto/common.go", "ParseMultisigScript", "parseMultisigScript"},
		{"crypto/common.go", "ParseCrossChainScript", "parseCrossChainScript"},
		{"crypto/common.go", "parsePublicKeys", "parsePublicKeys"},
		{"auxpow/auxpow.go", "AuxPow.Check", "auxPowCheck"},
		{"auxpow/auxpow.go", "GetExpectedIndex", "getExpectedIndex"},
		{"auxpow/auxpow.go", "GetMerkleRoot", "getMerkleRoot"},
		{"blockchain/blockvalidator.go", "BlockChain.checkCoinbaseTransactionContext", "checkCoinbaseTransactionContext"},
		{"blockchain/blockvalidator.go", "CheckCoinbaseArbitratorsReward", "checkCoinbaseArbitratorsReward"},
		{"core/transaction/coinbasetransaction.go", "CoinBaseTransaction.CheckTransactionOutput", "coinbaseCheckTransactionOutput"},
		{"core/transaction/withdrawfromsidechaintransaction.go", "checkSchnorrWithdrawFromSidechain", "checkSchnorrWithdrawFromSidechain"},
		{"blockchain/blockvalidator.go", "BlockChain.CheckBlockSanity", "checkBlockSanity"},
		{"core/transaction/nexttrundposinfotransaction.go", "isNextArbitratorsSame", "isNextArbitratorsSame"},
		{"core/transaction/nexttrundposinfotransaction.go", "isNextArbitratorsSameV1", "isNextArbitratorsSameV1"},
		{"blockchain/blockchain.go", "BlockChain.maybeAcceptBlock", "maybeAcceptBlock"},
		{"blockchain/blockchain.go", "BlockChain.connectBestChain", "connectBestChain"},
		{"core/transaction/registercrtransaction.go", "RegisterCRTransaction.SpecialContextCheck", "registerCRSpecialContextCheck"},
		{"core/transaction/inactivearbitratorstransaction.go", "checkCRCArbitratorsSignatures", "checkCRCArbitratorsSignaturesTx"},
		{"blockchain/txvalidator.go", "checkCRCArbitratorsSignatures", "checkCRCArbitratorsSignaturesBc"},
		{"core/transaction/returndepositcointransaction.go", "ReturnDepositCoinTransaction.SpecialContextCheck", "returnDepositSpecialContextCheck"},
	}
	files := map[string]*ex.File{}
	for _, it := range items {
		f := files[it.file]
		if f == nil {
			f = ex.Parse(it.file)
			files[it.file] = f
		}
		acc := accesses(f, it.fn, it.fn == "GetExpectedIndex" || it.fn == "BlockChain.CheckBlockSanity" || it.fn == "BlockChain.maybeAcceptBlock" || it.fn == "ReturnDepositCoinTransaction.SpecialContextCheck")
		fmt.Printf("/-- %s : %s -/\ndef %s : List String := [\n", it.file, it.fn, it.def)
		for i, a := range acc {
			sep := ","
			if i == len(acc)-1 {
				sep = ""
			}
			fmt.Printf("  %s%s\n", ex.LeanStr(a), sep)
		}
		fmt.Printf("]\n\n")
	}
	// every per-type checker method of core/transaction
	methods := map[string]bool{"SpecialContextCheck": true, "CheckTransactionPayload": true, "CheckAttributeProgram": true,
		"CheckTransactionOutput": true, "CheckTransactionInput": true, "HeightVersionCheck": true, "CheckTransactionFee": true,
		"CheckTransactionSize": true, "ContextCheck": true, "SanityCheck": true}
	fmt.Printf("/-- per transaction type checker methods of core/transaction: (file : Recv.Method, accesses and guards in source order) -/\ndef txCheckers : List (String × List String) := [\n")
	first := true
	for _, f := range ex.ParseDir("core/transaction") {
		for _, d := range f.AST.Decls {
			fd, ok := d.(*ast.FuncDecl)
			if !ok || fd.Recv == nil || !methods[fd.Name.Name] {
				continue
			}
			acc := accessesOf(f, fd, false)
			if len(acc) == 0 { // nothing that can panic: adding or removing such a method does not concern the table
				continue
			}
			if !first {
				fmt.Printf(",\n")
			}
			first = false
			fmt.Printf("  (%s, %s)", ex.LeanStr(f.Path+" : "+ex.RecvName(fd)+"."+fd.Name.Name), ex.StrList(acc))
		}
	}
	fmt.Printf("\n]\n\n")
	// block-level and confirm / illegal-evidence validators of package blockchain
	fmt.Printf("/-- block context, confirm and illegal-evidence validators of package blockchain -/\ndef chainCheckers : List (String × List String) := [\n")
	first = true
	for _, rel := range []string{"blockchain/blockvalidator.go", "blockchain/confirmvalidator.go", "blockchain/txvalidator.go"} {
		f := ex.Parse(rel)
		for _, d := range f.AST.Decls {
			fd, ok := d.(*ast.FuncDecl)
			if !ok {
				continue
			}
			acc := accessesOf(f, fd, false)
			if len(acc) == 0 {
				continue
			}
			if !first {
				fmt.Printf(",\n")
			}
			first = false
			n := fd.Name.Name
			if r := ex.RecvName(fd); r != "" {
				n = r + "." + n
			}
			fmt.Printf("  (%s, %s)", ex.LeanStr(rel+" : "+n), ex.StrList(acc))
		}
	}
	fmt.Printf("\n]\n\n")
	ex.Footer("C03")
}
