// Facts for C01 (no transaction creates value), regenerated from /repo's working tree:
//
//   - kinds:     for every Go tx type code the factory accepts: the struct it
//                creates and which of the amount-relevant checker methods that
//                struct overrides (otherwise DefaultChecker's run), plus the
//                set of return shapes of its SpecialContextCheck ("nil,true" =
//                the transaction is accepted WITHOUT the fee check).
//   - sanitySeq / contextSeq: the ordered calls of DefaultChecker.SanityCheck /
//                ContextCheck (is the output total check there, does the fee check
//                come after SpecialContextCheck's early end, ...)
//   - poolSeq / blockSanitySeq / blockContextSeq: the mempool and block paths run
//                sanity before context.
//
// Facts only; every judgement is a Lean lemma in Props/C01.lean.
package main

import (
	"fmt"
	"go/ast"
	"reflect"
	"sort"
	"strings"

	"elaverif/extract/ex"

	"github.com/elastos/Elastos.ELA/core/transaction"
	common2 "github.com/elastos/Elastos.ELA/core/types/common"
)

var methods = []string{"CheckTransactionInput", "CheckTransactionOutput", "CheckTransactionFee",
	"SpecialContextCheck", "ContextCheck", "SanityCheck"}

type fn struct {
	f  *ex.File
	fd *ast.FuncDecl
}

func shape1(f *ex.File, e ast.Expr) string {
	switch x := e.(type) {
	case *ast.Ident:
		if x.Name == "nil" {
			return "nil"
		}
		return "var"
	}
	return "err"
}
func shape2(f *ex.File, e ast.Expr) string {
	if x, ok := e.(*ast.Ident); ok {
		if x.Name == "true" || x.Name == "false" {
			return x.Name
		}
		return "var"
	}
	return "expr"
}

// nonNilGuard: the identifiers x for which the condition is `x != nil`.
func nonNilGuard(cond ast.Expr) string {
	b, ok := cond.(*ast.BinaryExpr)
	if !ok || b.Op.String() != "!=" {
		return ""
	}
	x, ok1 := b.X.(*ast.Ident)
	y, ok2 := b.Y.(*ast.Ident)
	if ok1 && ok2 && y.Name == "nil" {
		return x.Name
	}
	return ""
}

// returnShapes lists the distinct shapes of the return statements of a
// (error, bool) function, nested function literals excluded.  First result:
// "nil" | "err" (a call/composite, or a variable returned inside the body of
// `if v != nil`) | "var" (a variable that may be nil).  Second: true|false|var|expr.
func returnShapes(f *ex.File, fd *ast.FuncDecl) []string {
	set := map[string]bool{}
	var visit func(n ast.Node, nonNil map[string]bool)
	visit = func(n ast.Node, nonNil map[string]bool) {
		ast.Inspect(n, func(m ast.Node) bool {
			switch x := m.(type) {
			case *ast.FuncLit:
				return false
			case *ast.IfStmt:
				if x.Init != nil {
					visit(x.Init, nonNil)
				}
				inner := nonNil
				if g := nonNilGuard(x.Cond); g != "" {
					inner = map[string]bool{g: true}
					for k := range nonNil {
						inner[k] = true
					}
				}
				visit(x.Body, inner)
				if x.Else != nil {
					visit(x.Else, nonNil)
				}
				return false
			case *ast.ReturnStmt:
				if len(x.Results) == 2 {
					s1 := shape1(f, x.Results[0])
					if id, ok := x.Results[0].(*ast.Ident); ok && s1 == "var" && nonNil[id.Name] {
						s1 = "err"
					}
					set[s1+","+shape2(f, x.Results[1])] = true
				} else {
					set["bare"] = true
				}
			}
			return true
		})
	}
	visit(fd.Body, map[string]bool{})
	var res []string
	for k := range set {
		res = append(res, k)
	}
	sort.Strings(res)
	return res
}

func keep(c string) bool {
	for _, p := range []string{"log.", "elaerr.", "errors.", "fmt.", "len", "new", "make"} {
		if strings.HasPrefix(c, p) {
			return false
		}
	}
	return true
}

func seq(f *ex.File, name string) []string {
	var res []string
	for _, c := range f.Calls(f.MustFunc(name).Body) {
		if keep(c) {
			res = append(res, c)
		}
	}
	return res
}

func main() {
	ex.Header("C01")
	files := ex.ParseDir("core/transaction")
	byRecv := map[string]map[string]fn{}
	for _, f := range files {
		for _, d := range f.AST.Decls {
			fd, ok := d.(*ast.FuncDecl)
			if !ok || fd.Body == nil {
				continue
			}
			r := ex.RecvName(fd)
			if r == "" {
				continue
			}
			if byRecv[r] == nil {
				byRecv[r] = map[string]fn{}
			}
			byRecv[r][fd.Name.Name] = fn{f, fd}
		}
	}
	fmt.Println("structure Kind where\n  code : Nat\n  struct : String\n  overrides : List String\n  special : List String\n  deriving DecidableEq, Repr\n")
	fmt.Println("def kinds : List Kind := [")
	first := true
	for code := 0; code < 256; code++ {
		tx, err := transaction.GetTransaction(common2.TxType(code))
		if err != nil || tx == nil {
			continue
		}
		name := reflect.TypeOf(tx).Elem().Name()
		var ov []string
		for _, m := range methods {
			if _, ok := byRecv[name][m]; ok {
				ov = append(ov, m)
			}
		}
		var sp []string
		if s, ok := byRecv[name]["SpecialContextCheck"]; ok {
			sp = returnShapes(s.f, s.fd)
		} else if s, ok := byRecv["DefaultChecker"]["SpecialContextCheck"]; ok {
			sp = returnShapes(s.f, s.fd)
		}
		if !first {
			fmt.Println(",")
		}
		first = false
		fmt.Printf("  { code := %d, struct := %s, overrides := %s, special := %s }", code, ex.LeanStr(name), ex.StrList(ov), ex.StrList(sp))
	}
	fmt.Println("\n]\n")
	// structs that define SanityCheck / ContextCheck at all (who can bypass the default flow)
	var sanOwners, ctxOwners []string
	for r, ms := range byRecv {
		if _, ok := ms["SanityCheck"]; ok {
			sanOwners = append(sanOwners, r)
		}
		if _, ok := ms["ContextCheck"]; ok {
			ctxOwners = append(ctxOwners, r)
		}
	}
	sort.Strings(sanOwners)
	sort.Strings(ctxOwners)
	ex.DefStrList("sanityOwners", sanOwners)
	ex.DefStrList("contextOwners", ctxOwners)

	chk := ex.Parse("core/transaction/transactionchecker.go")
	ex.DefStrList("sanitySeq", seq(chk, "DefaultChecker.SanityCheck"))
	ex.DefStrList("contextSeq", seq(chk, "DefaultChecker.ContextCheck"))
	ex.DefStrList("defaultFeeSeq", seq(chk, "DefaultChecker.CheckTransactionFee"))
	pool := ex.Parse("mempool/txpool.go")
	ex.DefStrList("poolSeq", seq(pool, "TxPool.appendToTxPool"))
	bv := ex.Parse("blockchain/blockvalidator.go")
	var bs []string
	for _, c := range seq(bv, "BlockChain.CheckBlockSanity") {
		if strings.Contains(c, "CheckTransaction") {
			bs = append(bs, c)
		}
	}
	ex.DefStrList("blockSanitySeq", bs)
	var bc []string
	for _, c := range seq(bv, "BlockChain.checkTxsContext") {
		if strings.Contains(c, "CheckTransaction") || strings.Contains(c, "GetTxFee") {
			bc = append(bc, c)
		}
	}
	ex.DefStrList("blockContextSeq", bc)
	ex.Footer("C01")
}
