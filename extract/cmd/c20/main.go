// Facts for C20: the usage discipline of utils.History in the node — every call of
// History.SeekTo / RollbackSeekTo / RollbackTo / Commit in dpos/state and cr/state (enclosing function,
// receiver text, argument text) and the distinct height-argument texts of History.Append.
// Texts are printed as character-code lists (the Lean kernel does not evaluate String functions).
package main

import (
	"fmt"
	"go/ast"
	"sort"
	"strings"

	"elaverif/extract/ex"
)

func codes(x string) string {
	var b []string
	for _, r := range x {
		b = append(b, fmt.Sprint(int(r)))
	}
	return "[" + strings.Join(b, ",") + "]"
}

type call struct {
	file string
	line int
	fn, recv, method, arg string
}

func main() {
	ex.Header("C20", "ElaVerif.Model.Sites")
	fmt.Printf("open ElaVerif.Sites\n\n")
	methods := map[string]bool{"SeekTo": true, "RollbackSeekTo": true, "RollbackTo": true, "Commit": true}
	var calls []call
	heights := map[string]bool{}
	for _, d := range []string{"dpos/state", "cr/state"} {
		for _, f := range ex.ParseDir(d) {
			for _, decl := range f.AST.Decls {
				fd, ok := decl.(*ast.FuncDecl)
				if !ok || fd.Body == nil {
					continue
				}
				name := fd.Name.Name
				if r := ex.RecvName(fd); r != "" {
					name = r + "." + name
				}
				ast.Inspect(fd.Body, func(n ast.Node) bool {
					c, ok := n.(*ast.CallExpr)
					if !ok {
						return true
					}
					sel, ok := c.Fun.(*ast.SelectorExpr)
					if !ok {
						return true
					}
					recv := f.Src(sel.X)
					if !(strings.HasSuffix(recv, "History") || strings.HasSuffix(recv, "history")) {
						return true
					}
					if sel.Sel.Name == "Append" && len(c.Args) == 3 {
						heights[f.Src(c.Args[0])] = true
					}
					if methods[sel.Sel.Name] && len(c.Args) == 1 {
						calls = append(calls, call{f.Path, f.Line(c), name, recv, sel.Sel.Name, f.Src(c.Args[0])})
					}
					return true
				})
			}
		}
	}
	sort.SliceStable(calls, func(i, j int) bool {
		if calls[i].method != calls[j].method {
			return calls[i].method < calls[j].method
		}
		if calls[i].file != calls[j].file {
			return calls[i].file < calls[j].file
		}
		return calls[i].line < calls[j].line
	})
	var items []string
	for _, c := range calls {
		fmt.Printf("-- %s:%d  %s  %s.%s(%s)\n", c.file, c.line, c.fn, c.recv, c.method, c.arg)
		items = append(items, fmt.Sprintf("⟨%s, %s, %s, %s⟩", codes(c.fn), codes(c.recv), codes(c.method), codes(c.arg)))
	}
	fmt.Printf("def calls : List NCall := [%s]\n\n", strings.Join(items, ",\n  "))
	var hs []string
	for h := range heights {
		hs = append(hs, h)
	}
	sort.Strings(hs)
	var hc []string
	for _, h := range hs {
		hc = append(hc, codes(h))
	}
	fmt.Printf("-- height arguments of History.Append: %s\n", strings.Join(hs, ", "))
	fmt.Printf("def appendHeights : List Txt := [%s]\n", strings.Join(hc, ", "))
	ex.Footer("C20")
}
