// Facts for C39: the limits a filterload message is held to (both copies of the
// constants), the seed multiplier and the side-chain tweak used by bloom.Filter,
// and the statements of Filter.hash / matches / add that the model transcribes.
package main

import (
	"go/ast"
	"strings"

	"elaverif/extract/ex"

	"github.com/elastos/Elastos.ELA/elanet/bloom"
	"github.com/elastos/Elastos.ELA/p2p/msg"
)

// guards lists the conditions of the `if` statements that precede the first `for` of a function body.
func guards(f *ex.File, fn string) []string {
	fd := f.MustFunc(fn)
	var res []string
	for _, st := range fd.Body.List {
		if _, ok := st.(*ast.ForStmt); ok {
			break
		}
		if is, ok := st.(*ast.IfStmt); ok {
			var body []string
			for _, b := range is.Body.List {
				body = append(body, f.Src(b))
			}
			res = append(res, f.Src(is.Cond)+" => "+strings.Join(body, "; "))
		}
	}
	return res
}

// loopBody lists the statements of the first `for` of a function body.
func loopBody(f *ex.File, fn string) []string {
	fd := f.MustFunc(fn)
	var res []string
	for _, st := range fd.Body.List {
		if fs, ok := st.(*ast.ForStmt); ok {
			res = append(res, "for "+f.Src(fs.Init)+"; "+f.Src(fs.Cond)+"; "+f.Src(fs.Post))
			for _, b := range fs.Body.List {
				res = append(res, f.Src(b))
			}
			break
		}
	}
	return res
}

func main() {
	ex.Header("C39")
	ex.DefNat("bloomMaxFilterLoadFilterSize", bloom.MaxFilterLoadFilterSize)
	ex.DefNat("bloomMaxFilterLoadHashFuncs", bloom.MaxFilterLoadHashFuncs)
	ex.DefNat("msgMaxFilterLoadFilterSize", msg.MaxFilterLoadFilterSize)
	ex.DefNat("msgMaxFilterLoadHashFuncs", msg.MaxFilterLoadHashFuncs)
	f := ex.Parse("elanet/bloom/filter.go")
	var stmts []string
	for _, st := range f.MustFunc("Filter.hash").Body.List {
		stmts = append(stmts, f.Src(st))
	}
	ex.DefStrList("hashBody", stmts)
	ex.DefStrList("matchesGuards", guards(f, "Filter.matches"))
	ex.DefStrList("matchesLoop", loopBody(f, "Filter.matches"))
	ex.DefStrList("addGuards", guards(f, "Filter.add"))
	ex.DefStrList("addLoop", loopBody(f, "Filter.add"))
	m := ex.Parse("elanet/bloom/murmurhash3.go")
	var consts []string
	for _, d := range m.AST.Decls {
		if gd, ok := d.(*ast.GenDecl); ok {
			for _, s := range gd.Specs {
				if vs, ok := s.(*ast.ValueSpec); ok {
					for i, n := range vs.Names {
						if i < len(vs.Values) {
							consts = append(consts, n.Name+" = "+m.Src(vs.Values[i]))
						}
					}
				}
			}
		}
	}
	ex.DefStrList("murmurConsts", consts)
	fl := ex.Parse("p2p/msg/filterload.go")
	var des []string
	ast.Inspect(fl.MustFunc("FilterLoad.Deserialize").Body, func(n ast.Node) bool {
		switch x := n.(type) {
		case *ast.CallExpr:
			fn := fl.Src(x.Fun)
			if strings.HasPrefix(fn, "common.Read") {
				des = append(des, fl.Src(x))
			}
		case *ast.IfStmt:
			c := fl.Src(x.Cond)
			if strings.Contains(c, "Max") || strings.Contains(c, "io.EOF") {
				des = append(des, "if "+c)
			}
		}
		return true
	})
	ex.DefStrList("filterLoadDeserialize", des)
	ex.Footer("C39")
}
