// Facts for C39: the limits a filterload message is held to (both copies of the
// constants), the seed multiplier and the side-chain tweak used by bloom.Filter,
// and the statements of Filter.hash / matches / add that the model transcribes.
package main

import (
	"fmt"
	"go/ast"
	"strings"

	"elaverif/extract/ex"

	ctypes "github.com/elastos/Elastos.ELA/core/types/common"
	"github.com/elastos/Elastos.ELA/core/types/payload"
	"github.com/elastos/Elastos.ELA/elanet/bloom"
	"github.com/elastos/Elastos.ELA/elanet/filter"
	"github.com/elastos/Elastos.ELA/p2p/msg"
)

// guards lists the conditions of the `if` statements that precede the first `for` of a function body.
func guards(f *ex.File, fn string) []string {
	fd := f.MustFunc(fn)
	var res []string
	for _, st := range fd.Body.List {
		if _, ok := st.(*ast.ForStmt); ok {
			break
		}
		if is, ok := st.(*ast.IfStmt); ok {
			var body []string
			for _, b := range is.Body.List {
				body = append(body, f.Src(b))
			}
			res = append(res, f.Src(is.Cond)+" => "+strings.Join(body, "; "))
		}
	}
	return res
}

// loopBody lists the statements of the first `for` of a function body.
func loopBody(f *ex.File, fn string) []string {
	fd := f.MustFunc(fn)
	var res []string
	for _, st := range fd.Body.List {
		if fs, ok := st.(*ast.ForStmt); ok {
			res = append(res, "for "+f.Src(fs.Init)+"; "+f.Src(fs.Cond)+"; "+f.Src(fs.Post))
			for _, b := range fs.Body.List {
				res = append(res, f.Src(b))
			}
			break
		}
	}
	return res
}

func main() {
	ex.Header("C39")
	ex.DefNat("bloomMaxFilterLoadFilterSize", bloom.MaxFilterLoadFilterSize)
	ex.DefNat("bloomMaxFilterLoadHashFuncs", bloom.MaxFilterLoadHashFuncs)
	ex.DefNat("msgMaxFilterLoadFilterSize", msg.MaxFilterLoadFilterSize)
	ex.DefNat("msgMaxFilterLoadHashFuncs", msg.MaxFilterLoadHashFuncs)
	f := ex.Parse("elanet/bloom/filter.go")
	var stmts []string
	for _, st := range f.MustFunc("Filter.hash").Body.List {
		stmts = append(stmts, f.Src(st))
	}
	ex.DefStrList("hashBody", stmts)
	ex.DefStrList("matchesGuards", guards(f, "Filter.matches"))
	ex.DefStrList("matchesLoop", loopBody(f, "Filter.matches"))
	ex.DefStrList("addGuards", guards(f, "Filter.add"))
	ex.DefStrList("addLoop", loopBody(f, "Filter.add"))
	m := ex.Parse("elanet/bloom/murmurhash3.go")
	var consts []string
	for _, d := range m.AST.Decls {
		if gd, ok := d.(*ast.GenDecl); ok {
			for _, s := range gd.Specs {
				if vs, ok := s.(*ast.ValueSpec); ok {
					for i, n := range vs.Names {
						if i < len(vs.Values) {
							consts = append(consts, n.Name+" = "+m.Src(vs.Values[i]))
						}
					}
				}
			}
		}
	}
	ex.DefStrList("murmurConsts", consts)
	fl := ex.Parse("p2p/msg/filterload.go")
	var des []string
	ast.Inspect(fl.MustFunc("FilterLoad.Deserialize").Body, func(n ast.Node) bool {
		switch x := n.(type) {
		case *ast.CallExpr:
			fn := fl.Src(x.Fun)
			if strings.HasPrefix(fn, "common.Read") {
				des = append(des, fl.Src(x))
			}
		case *ast.IfStmt:
			c := fl.Src(x.Cond)
			if strings.Contains(c, "Max") || strings.Contains(c, "io.EOF") {
				des = append(des, "if "+c)
			}
		}
		return true
	})
	ex.DefStrList("filterLoadDeserialize", des)

	// ---- the layer above the bloom filter
	// filter type constants and the server's dispatch switch
	fmt.Printf("def filterTypes : List (String × Nat) := [(\"FTBloom\", %d), (\"FTDPOS\", %d), (\"FTNexTTurnDPOSInfo\", %d), (\"FTCustomID\", %d), (\"FTUpgrade\", %d), (\"FTReturnSidechainDepositCoinFilter\", %d)]\n",
		filter.FTBloom, filter.FTDPOS, filter.FTNexTTurnDPOSInfo, filter.FTCustomID, filter.FTUpgrade, filter.FTReturnSidechainDepositCoinFilter)
	srv := ex.Parse("elanet/server.go")
	var disp []string
	ast.Inspect(srv.MustFunc("newServerPeer").Body, func(n ast.Node) bool {
		if sw, ok := n.(*ast.SwitchStmt); ok && sw.Tag != nil && srv.Src(sw.Tag) == "typ" {
			for _, c := range sw.Body.List {
				cc := c.(*ast.CaseClause)
				var body []string
				for _, b := range cc.Body {
					body = append(body, srv.Src(b))
				}
				var cs []string
				for _, e := range cc.List {
					cs = append(cs, srv.Src(e))
				}
				disp = append(disp, strings.Join(cs, ",")+" => "+strings.Join(body, "; "))
			}
			return false
		}
		return true
	})
	ex.DefStrList("serverDispatch", disp)
	ff := ex.Parse("elanet/filter/filter.go")
	var loadStmts []string
	for _, st := range ff.MustFunc("Filter.load").Body.List {
		loadStmts = append(loadStmts, ff.Src(st))
	}
	ex.DefStrList("filterLoad", loadStmts)
	// the wrappers: what MatchConfirmed / MatchUnconfirmed / Load / Add return
	fmt.Print("def wrappers : List (String × String × String × String × String) := [")
	for i, w := range [][2]string{{"sidefilter/sidefilter.go", "Filter"}, {"nextturndposfilter/nextturndposfilter.go", "NextTurnDPOSInfoFilter"},
		{"customidfilter/customidfilter.go", "CustomIdFilter"}, {"upgradefilter/upgradefilter.go", "UpgradeFilter"},
		{"returnsidechaindepositcoinfilter/returnsidechaindepositecoinfilter.go", "ReturnSidechainDepositCoinFilter"}} {
		wf := ex.Parse("elanet/filter/" + w[0])
		body := func(m string) string {
			var parts []string
			for _, st := range wf.MustFunc(w[1] + "." + m).Body.List {
				parts = append(parts, wf.Src(st))
			}
			return strings.Join(parts, "; ")
		}
		if i > 0 {
			fmt.Print(",\n  ")
		}
		fmt.Printf("(%s, %s, %s, %s, %s)", ex.LeanStr(w[1]), ex.LeanStr(body("Load")), ex.LeanStr(body("Add")), ex.LeanStr(body("MatchConfirmed")), ex.LeanStr(body("MatchUnconfirmed")))
	}
	fmt.Println("]")
	// bloom.TxFilter: the plumbing between the message handlers and bloom.Filter
	tfp := ex.Parse("elanet/bloom/txfilter.go")
	var tfm []string
	for _, m := range []string{"Load", "Add", "MatchConfirmed", "MatchUnconfirmed"} {
		var parts []string
		for _, b := range tfp.MustFunc("TxFilter." + m).Body.List {
			parts = append(parts, tfp.Src(b))
		}
		tfm = append(tfm, m+": "+strings.Join(parts, "; "))
	}
	ex.DefStrList("txFilterMethods", tfm)
	opf := ex.Parse("core/types/common/outpoint.go")
	var opb []string
	for _, m := range []string{"Serialize", "Bytes"} {
		var parts []string
		for _, b := range opf.MustFunc("OutPoint." + m).Body.List {
			parts = append(parts, opf.Src(b))
		}
		opb = append(opb, m+": "+strings.Join(parts, "; "))
	}
	ex.DefStrList("outPointBytes", opb)
	// State.IsDPOSTransaction: the unconditional case list; the tx-type predicates
	st := ex.Parse("dpos/state/state.go")
	var dposCases []string
	ast.Inspect(st.MustFunc("State.IsDPOSTransaction").Body, func(n ast.Node) bool {
		if cc, ok := n.(*ast.CaseClause); ok && len(dposCases) == 0 {
			for _, e := range cc.List {
				dposCases = append(dposCases, st.Src(e))
			}
			return false
		}
		return true
	})
	ex.DefStrList("isDPOSTransactionFirstCase", dposCases)
	txf := ex.Parse("core/transaction/transaction.go")
	var preds []string
	for _, m := range []string{"IsNextTurnDPOSInfoTx", "IsCustomIDResultTx", "IsCRCProposalTx", "IsRevertToPOW", "IsRevertToDPOS", "IsReturnSideChainDepositCoinTx", "IsCustomIDRelatedTx", "IsSideChainUpgradeTx"} {
		var parts []string
		for _, b := range txf.MustFunc("BaseTransaction." + m).Body.List {
			parts = append(parts, txf.Src(b))
		}
		preds = append(preds, m+": "+strings.Join(parts, "; "))
	}
	ex.DefStrList("txPredicates", preds)
	fmt.Printf("def txTypeValues : List (String × Nat) := [(\"TransferAsset\", %d), (\"RegisterProducer\", %d), (\"CancelProducer\", %d), (\"UpdateProducer\", %d), (\"ReturnDepositCoin\", %d), (\"ActivateProducer\", %d), (\"IllegalProposalEvidence\", %d), (\"IllegalVoteEvidence\", %d), (\"IllegalBlockEvidence\", %d), (\"IllegalSidechainEvidence\", %d), (\"InactiveArbitrators\", %d), (\"NextTurnDPOSInfo\", %d), (\"ProposalResult\", %d), (\"CRCProposal\", %d), (\"RevertToPOW\", %d), (\"RevertToDPOS\", %d), (\"ReturnSideChainDepositCoin\", %d)]\n",
		ctypes.TransferAsset, ctypes.RegisterProducer, ctypes.CancelProducer, ctypes.UpdateProducer, ctypes.ReturnDepositCoin, ctypes.ActivateProducer,
		ctypes.IllegalProposalEvidence, ctypes.IllegalVoteEvidence, ctypes.IllegalBlockEvidence, ctypes.IllegalSidechainEvidence, ctypes.InactiveArbitrators,
		ctypes.NextTurnDPOSInfo, ctypes.ProposalResult, ctypes.CRCProposal, ctypes.RevertToPOW, ctypes.RevertToDPOS, ctypes.ReturnSideChainDepositCoin)
	fmt.Printf("def proposalTypeValues : List (String × Nat) := [(\"ReserveCustomID\", %d), (\"ReceiveCustomID\", %d), (\"ChangeCustomIDFee\", %d), (\"MinUpgradeProposalType\", %d), (\"MaxUpgradeProposalType\", %d)]\n",
		payload.ReserveCustomID, payload.ReceiveCustomID, payload.ChangeCustomIDFee, payload.MinUpgradeProposalType, payload.MaxUpgradeProposalType)
	// what matchTxAndUpdate reads of a transaction: every method called on txn / its elements
	var acc []string
	seen := map[string]bool{}
	ast.Inspect(f.MustFunc("Filter.matchTxAndUpdate").Body, func(n ast.Node) bool {
		if se, ok := n.(*ast.SelectorExpr); ok {
			if id, ok := se.X.(*ast.Ident); ok && (id.Name == "txn" || id.Name == "txOut" || id.Name == "txIn") {
				k := id.Name + "." + se.Sel.Name
				if !seen[k] {
					seen[k] = true
					acc = append(acc, k)
				}
			}
		}
		return true
	})
	ex.DefStrList("matchTxReads", acc)
	// size limits of the two filter messages
	ex.DefNat("filterLoadMaxLength", (&msg.FilterLoad{}).MaxLength())
	ex.DefNat("filterAddMaxLength", (&msg.FilterAdd{}).MaxLength())
	ex.DefNat("maxFilterAddDataSize", msg.MaxFilterAddDataSize)
	ex.DefNat("txFilterLoadMaxLength", (&msg.TxFilterLoad{}).MaxLength())
	ex.DefNat("maxTxFilterLoadDataSize", msg.MaxTxFilterLoadDataSize)
	ex.Footer("C39")
}
