// Facts for C27: how the callers use the distribution.
//   - every call of clearingDPOSReward / accumulateReward with its arguments, per calling function
//     (forceChange clears with smoothClearing=false, the regular round change with true)
//   - the statements of clearingDPOSReward that decide what is distributed and what is carried forward
//   - the loop header and comparisons of blockchain.CheckCoinbaseArbitratorsReward
package main

import (
	"go/ast"
	"strings"

	"elaverif/extract/ex"
)

func main() {
	ex.Header("C27")
	f := ex.Parse("dpos/state/arbitrators.go")
	var calls []string
	for _, d := range f.AST.Decls {
		fd, ok := d.(*ast.FuncDecl)
		if !ok || fd.Body == nil {
			continue
		}
		ast.Inspect(fd.Body, func(n ast.Node) bool {
			if c, ok := n.(*ast.CallExpr); ok {
				s := f.Src(c)
				if strings.HasPrefix(s, "a.clearingDPOSReward(") || strings.HasPrefix(s, "a.accumulateReward(") ||
					strings.HasPrefix(s, "a.distributeDPOSReward(") {
					calls = append(calls, fd.Name.Name+": "+s)
				}
			}
			return true
		})
	}
	ex.DefStrList("rewardCalls", calls)
	// the conditions under which forceChange / IncreaseChainHeight reach those calls (every enclosing `if`)
	var guards []string
	for _, fn := range []string{"Arbiters.forceChange"} {
		fd := f.MustFunc(fn)
		var walk func(n ast.Node, conds []string)
		walk = func(n ast.Node, conds []string) {
			ast.Inspect(n, func(m ast.Node) bool {
				switch x := m.(type) {
				case *ast.IfStmt:
					inner := append(append([]string{}, conds...), f.Src(x.Cond))
					if x.Init != nil {
						walk(x.Init, conds)
					}
					walk(x.Body, inner)
					if x.Else != nil {
						walk(x.Else, append(append([]string{}, conds...), "!("+f.Src(x.Cond)+")"))
					}
					return false
				case *ast.CallExpr:
					if strings.HasPrefix(f.Src(x), "a.clearingDPOSReward(") {
						guards = append(guards, fd.Name.Name+": "+strings.Join(conds, " && "))
					}
				}
				return true
			})
		}
		walk(fd.Body, nil)
	}
	ex.DefStrList("clearingGuards", guards)
	var stmts []string
	for _, st := range f.MustFunc("Arbiters.clearingDPOSReward").Body.List {
		s := f.Src(st)
		if strings.Contains(s, "dposReward") || strings.Contains(s, "accumulativeReward") {
			if !strings.Contains(s, "History.Append") {
				stmts = append(stmts, s)
			}
		}
	}
	ex.DefStrList("clearingStatements", stmts)
	bv := ex.Parse("blockchain/blockvalidator.go")
	var cb []string
	ast.Inspect(bv.MustFunc("CheckCoinbaseArbitratorsReward").Body, func(n ast.Node) bool {
		switch x := n.(type) {
		case *ast.ForStmt:
			cb = append(cb, "for "+bv.Src(x.Init)+"; "+bv.Src(x.Cond)+"; "+bv.Src(x.Post))
		case *ast.IfStmt:
			cb = append(cb, "if "+bv.Src(x.Cond))
		}
		return true
	})
	ex.DefStrList("coinbaseRoundCheck", cb)
	ex.Footer("C27")
}
