// Facts for C32: the coordinated frozen-address list (and that it resolves to a
// program hash), the enforcement switch, the order of the configuration
// steps, and where the frozen-address check is called.
package main

import (
	"fmt"
	"os"
	"path/filepath"
	"regexp"
	"reflect"
	"go/ast"
	"sort"
	"strings"

	"elaverif/extract/ex"
	"elaverif/extract/exg"

	"github.com/elastos/Elastos.ELA/common"
	"github.com/elastos/Elastos.ELA/common/config"
	"github.com/elastos/Elastos.ELA/core/transaction"
	"github.com/elastos/Elastos.ELA/core/types/functions"
)

func strLists(xss [][]string) string {
	var parts []string
	for _, xs := range xss {
		parts = append(parts, ex.StrList(xs))
	}
	return "[" + strings.Join(parts, ", ") + "]"
}

func main() {
	ex.Header("C32")
	pkgs := exg.Load(false, "./core/transaction", "./common/config/settings")
	tx := exg.Pkg(pkgs, "core/transaction")
	st := exg.Pkg(pkgs, "common/config/settings")

	ex.Comment("config.MainNetFrozenAddresses(): (address, start height, program hash the address decodes to | \"nil\")")
	var rows []string
	first := "nil"
	for i, f := range config.MainNetFrozenAddresses() {
		h := "nil"
		if ph, err := common.Uint168FromAddress(f.Address); err == nil && ph != nil {
			h = fmt.Sprintf("%x", ph[:])
		}
		if i == 0 {
			first = h
		}
		rows = append(rows, fmt.Sprintf("(%s, %d, %s)", ex.LeanStr(f.Address), f.DisableStartHeight, ex.LeanStr(h)))
	}
	fmt.Printf("def mainnetFrozen : List (String × Nat × String) := [%s]\n", strings.Join(rows, ", "))
	ex.DefStr("exploitHashHex", first)
	ex.DefNat("mainnetFreeze", config.MainNetCrossChainUTXOFreezeHeight)

	ex.Comment("number of frozen entries in the built-in parameter sets: default, TestNet(), RegNet()")
	fmt.Printf("def presetLists : List Nat := [%d, %d, %d]\n", len(config.GetDefaultParams().FrozenAddresses),
		len(config.GetDefaultParams().TestNet().FrozenAddresses), len(config.GetDefaultParams().RegNet().FrozenAddresses))

	ex.Comment("Sterilize() on the default parameters resolves every frozen entry to the hash its address decodes to")
	functions.GetTransactionByTxType = transaction.GetTransaction // as SetupConfig does before Sterilize
	functions.GetTransactionByBytes = transaction.GetTransactionByBytes
	functions.CreateTransaction = transaction.CreateTransaction
	functions.GetTransactionParameters = transaction.GetTransactionparameters
	p := config.GetDefaultParams().Sterilize()
	ok := len(p.FrozenAddresses) > 0
	for _, f := range p.FrozenAddresses {
		ph, err := common.Uint168FromAddress(f.Address)
		if err != nil || f.ProgramHash == nil || !f.ProgramHash.IsEqual(*ph) {
			ok = false
		}
	}
	ex.DefBool("sterilizeResolvesFrozen", ok)

	ex.Comment("settings: the switch of enforceFrozenAddresses and the statements of each clause")
	ssrc := func(n ast.Node) string { return exg.Src(st, n) }
	en := exg.FuncDecl(st, "enforceFrozenAddresses")
	fmt.Printf("def enforceCases : List (List String) := %s\n", strLists(exg.SwitchCases(st, en, "strings.ToLower(configuration.ActiveNet)", ssrc)))
	var clauses [][]string
	ast.Inspect(en, func(x ast.Node) bool {
		if cc, ok := x.(*ast.CaseClause); ok {
			as := []string{}
			for _, s := range cc.Body {
				as = append(as, ssrc(s))
			}
			clauses = append(clauses, as)
		}
		return true
	})
	fmt.Printf("def enforceAssigns : List (List String) := %s\n", strLists(clauses))
	ex.DefStrList("setupConfigCalls", exg.StaticCalls(st, exg.FuncDecl(st, "Settings.SetupConfig")))

	ex.Comment("receiver types in core/transaction that declare their own ContextCheck")
	var recv []string
	for _, f := range tx.Syntax {
		for _, dcl := range f.Decls {
			if fd, ok := dcl.(*ast.FuncDecl); ok && fd.Name.Name == "ContextCheck" && fd.Recv != nil {
				recv = append(recv, ex.RecvName(fd))
			}
		}
	}
	sort.Strings(recv)
	ex.DefStrList("contextCheckReceivers", recv)
	ex.DefStrList("defaultContextCheckCalls", exg.StaticCalls(tx, exg.FuncDecl(tx, "DefaultChecker.ContextCheck")))
	cb := false
	for _, c := range exg.StaticCalls(tx, exg.FuncDecl(tx, "CoinBaseTransaction.ContextCheck")) {
		if c == "core/transaction.checkFrozenAddresses" {
			cb = true
		}
	}
	ex.DefBool("coinbaseContextCheckCallsFrozen", cb)
	ex.Comment("the argument expressions of the helper's call in DefaultChecker.ContextCheck (which height, which configuration fields)")
	{
		var args []string
		ast.Inspect(exg.FuncDecl(tx, "DefaultChecker.ContextCheck"), func(x ast.Node) bool {
			if c, ok := x.(*ast.CallExpr); ok && exg.CalleeName(tx, c) == "core/transaction.checkFrozenAddresses" {
				for _, a := range c.Args {
					args = append(args, exg.Src(tx, a))
				}
			}
			return true
		})
		ex.DefStrList("frozenCallArgs", args)
	}
	ex.Comment("who runs the context check: every call of BlockChain.CheckTransactionContext (caller, height argument) in the node, every call of the ContextCheck method, and how CheckTransactionContext builds the parameters")
	{
		all := exg.Load(false, "./blockchain", "./mempool", "./pow", "./servers", "./elanet/...", "./core/...", "./dpos/...", "./cr/...")
		var rows []string
		for _, cs := range exg.CallSites(all, "(*blockchain.BlockChain).CheckTransactionContext") {
			rows = append(rows, fmt.Sprintf("(%s, %s)", ex.LeanStr(cs.Caller), ex.LeanStr(cs.Args[0])))
		}
		sort.Strings(rows)
		fmt.Printf("def contextCallSites : List (String × String) := [%s]\n", strings.Join(rows, ", "))
		var callers []string
		for _, cs := range exg.CallSites(all, "method:ContextCheck") {
			callers = append(callers, cs.Caller+" "+strings.Join(cs.Args, ","))
		}
		sort.Strings(callers)
		ex.DefStrList("contextCheckCallers", callers)
		var para []string
		for _, cs := range exg.CallSites(all, "src:functions.GetTransactionParameters") {
			if cs.Caller == "blockchain.BlockChain.CheckTransactionContext" {
				para = cs.Args
			}
		}
		ex.DefStrList("contextParameters", para)
	}
	ex.Comment("struct tags of the policy fields of config.Configuration (a `screw:` tag would make the field a command line flag)")
	{
		var rows []string
		t := reflect.TypeOf(config.Configuration{})
		for _, f := range []string{"CrossChainUTXOFreezeHeight", "CrossChainUTXORestrictionHeight", "FrozenAddresses", "ActiveNet"} {
			sf, ok := t.FieldByName(f)
			if !ok {
				rows = append(rows, fmt.Sprintf("(%s, %s)", ex.LeanStr(f), ex.LeanStr("MISSING")))
				continue
			}
			rows = append(rows, fmt.Sprintf("(%s, %s)", ex.LeanStr(f), ex.LeanStr(string(sf.Tag))))
		}
		fmt.Printf("def policyFieldTags : List (String × String) := [%s]\n", strings.Join(rows, ", "))
	}
	ex.Comment("what the operator documentation (docs/config.json.md) says: numeric literals after these keys, and the frozen address")
	{
		doc, err := os.ReadFile(filepath.Join(*ex.Repo, "docs", "config.json.md"))
		if err != nil {
			ex.Die("docs/config.json.md: %v", err)
		}
		var rows []string
		for _, key := range []string{"CrossChainUTXOFreezeHeight", "CrossChainUTXORestrictionHeight", "DisableStartHeight"} {
			for _, m := range regexp.MustCompile(`"`+key+`"\s*:\s*([0-9]+)`).FindAllStringSubmatch(string(doc), -1) {
				rows = append(rows, fmt.Sprintf("(%s, %s)", ex.LeanStr(key), m[1]))
			}
		}
		fmt.Printf("def docLiterals : List (String × Nat) := [%s]\n", strings.Join(rows, ", "))
		var addrs []string
		for _, m := range regexp.MustCompile(`"Address"\s*:\s*"([^"]+)"`).FindAllStringSubmatch(string(doc), -1) {
			addrs = append(addrs, m[1])
		}
		ex.DefStrList("docFrozenAddresses", addrs)
	}
	ex.Footer("C32")
}
