// Facts for C23 (draft): token streams of the checkpoint Serialize/Deserialize pairs.
package main

import (
	"fmt"
	"regexp"
	"strings"

	"elaverif/extract/ex"
	"elaverif/extract/wiretok"
)

var literalSize = regexp.MustCompile(`, [0-9]+\)$`)

func main() {
	ex.Header("C23", "ElaVerif.Lemmas.WireTokens")
	wiretok.Deep = true
	D := "dpos/state"
	C := "cr/state"
	ss := []wiretok.Stream{
		wiretok.Pair("dpos.CheckPoint", D, "CheckPoint", "Serialize", "Deserialize"),
		wiretok.Pair("dpos.StateKeyFrame", D, "StateKeyFrame", "Serialize", "Deserialize"),
		wiretok.Pair("dpos.RewardData", D, "RewardData", "Serialize", "Deserialize"),
		wiretok.Pair("cr.Checkpoint", C, "Checkpoint", "Serialize", "Deserialize"),
		wiretok.Pair("cr.KeyFrame", C, "KeyFrame", "Serialize", "Deserialize"),
		wiretok.Pair("cr.StateKeyFrame", C, "StateKeyFrame", "Serialize", "Deserialize"),
		wiretok.Pair("cr.ProposalKeyFrame", C, "ProposalKeyFrame", "Serialize", "Deserialize"),
		wiretok.Pair("mempool.txPoolCheckpoint", "mempool", "txPoolCheckpoint", "Serialize", "Deserialize"),
		wiretok.Pair("wallet.CoinsCheckPoint", "wallet", "CoinsCheckPoint", "Serialize", "Deserialize"),
	}
	wiretok.Print("streams", ss)
	wiretok.PrintMakes("makes", ss)
	// the parts of the wallet checkpoint: the owned-coins map (a method on a map type the deep
	// inliner does not follow) and one coin
	wiretok.Print("walletParts", []wiretok.Stream{
		wiretok.Pair("wallet.OwnedCoins", "wallet", "OwnedCoins", "Serialize", "Deserialize"),
		wiretok.Pair("wallet.Coin", "wallet", "Coin", "Serialize", "Deserialize"),
	})
	// make(…) calls of the checkpoint readers whose size / capacity argument is not an integer literal
	var sized []string
	for _, st := range ss {
		for _, mk := range st.Makes {
			if strings.Contains(mk, ",") && !literalSize.MatchString(mk) {
				sized = append(sized, st.Name+": "+mk)
			}
		}
	}
	ex.DefStrList("sizedMakes", sized)

	// field coverage: (type, all struct fields, fields mentioned by Serialize, by Deserialize)
	type ft struct{ name, dir, recv string }
	fmt.Println("def fieldTable : List (String × List String × List String × List String) := [")
	fts := []ft{{"dpos.CheckPoint", D, "CheckPoint"}, {"dpos.StateKeyFrame", D, "StateKeyFrame"}, {"dpos.RewardData", D, "RewardData"},
		{"cr.Checkpoint", C, "Checkpoint"}, {"cr.KeyFrame", C, "KeyFrame"}, {"cr.StateKeyFrame", C, "StateKeyFrame"},
		{"cr.ProposalKeyFrame", C, "ProposalKeyFrame"}, {"cr.CRMember", C, "CRMember"}, {"cr.ProposalState", C, "ProposalState"},
		{"cr.DepositInfo", C, "DepositInfo"}, {"dpos.Producer", D, "Producer"},
		{"mempool.txPoolCheckpoint", "mempool", "txPoolCheckpoint"}, {"wallet.CoinsCheckPoint", "wallet", "CoinsCheckPoint"}}
	for i, t := range fts {
		sep := ","
		if i == len(fts)-1 {
			sep = ""
		}
		fmt.Printf("  (%s, %s, %s, %s)%s\n", ex.LeanStr(t.name), ex.StrList(wiretok.StructFields(t.dir, t.recv)),
			ex.StrList(wiretok.FieldMentions(t.dir, t.recv, "Serialize")), ex.StrList(wiretok.FieldMentions(t.dir, t.recv, "Deserialize")), sep)
	}
	fmt.Println("]")
	ex.Footer("C23")
}
