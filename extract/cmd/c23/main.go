// Facts for C23 (draft): token streams of the checkpoint Serialize/Deserialize pairs.
package main

import (
	"elaverif/extract/ex"
	"elaverif/extract/wiretok"
)

func main() {
	ex.Header("C23", "ElaVerif.Lemmas.WireTokens")
	D := "dpos/state"
	C := "cr/state"
	ss := []wiretok.Stream{
		wiretok.Pair("dpos.CheckPoint", D, "CheckPoint", "Serialize", "Deserialize"),
		wiretok.Pair("dpos.StateKeyFrame", D, "StateKeyFrame", "Serialize", "Deserialize"),
		wiretok.Pair("dpos.RewardData", D, "RewardData", "Serialize", "Deserialize"),
		wiretok.Pair("cr.Checkpoint", C, "Checkpoint", "Serialize", "Deserialize"),
		wiretok.Pair("cr.KeyFrame", C, "KeyFrame", "Serialize", "Deserialize"),
		wiretok.Pair("cr.StateKeyFrame", C, "StateKeyFrame", "Serialize", "Deserialize"),
		wiretok.Pair("cr.ProposalKeyFrame", C, "ProposalKeyFrame", "Serialize", "Deserialize"),
		wiretok.Pair("mempool.txPoolCheckpoint", "mempool", "txPoolCheckpoint", "Serialize", "Deserialize"),
		wiretok.Pair("wallet.CoinsCheckPoint", "wallet", "CoinsCheckPoint", "Serialize", "Deserialize"),
	}
	wiretok.Print("streams", ss)
	wiretok.PrintMakes("makes", ss)
	ex.Footer("C23")
}
