// Facts for C23 (draft): token streams of the checkpoint Serialize/Deserialize pairs.
package main

import (
	"fmt"
	"go/ast"
	"sort"
	"regexp"
	"strings"

	"elaverif/extract/ex"
	"elaverif/extract/wiretok"
)

var literalSize = regexp.MustCompile(`, [0-9]+\)$`)

func main() {
	ex.Header("C23", "ElaVerif.Lemmas.WireTokens")
	wiretok.Deep = true
	D := "dpos/state"
	C := "cr/state"
	ss := []wiretok.Stream{
		wiretok.Pair("dpos.CheckPoint", D, "CheckPoint", "Serialize", "Deserialize"),
		wiretok.Pair("dpos.StateKeyFrame", D, "StateKeyFrame", "Serialize", "Deserialize"),
		wiretok.Pair("dpos.RewardData", D, "RewardData", "Serialize", "Deserialize"),
		wiretok.Pair("cr.Checkpoint", C, "Checkpoint", "Serialize", "Deserialize"),
		wiretok.Pair("cr.KeyFrame", C, "KeyFrame", "Serialize", "Deserialize"),
		wiretok.Pair("cr.StateKeyFrame", C, "StateKeyFrame", "Serialize", "Deserialize"),
		wiretok.Pair("cr.ProposalKeyFrame", C, "ProposalKeyFrame", "Serialize", "Deserialize"),
		wiretok.Pair("mempool.txPoolCheckpoint", "mempool", "txPoolCheckpoint", "Serialize", "Deserialize"),
		wiretok.Pair("wallet.CoinsCheckPoint", "wallet", "CoinsCheckPoint", "Serialize", "Deserialize"),
	}
	wiretok.Print("streams", ss)
	wiretok.PrintMakes("makes", ss)
	// the parts of the wallet checkpoint: the owned-coins map (a method on a map type the deep
	// inliner does not follow) and one coin
	wiretok.Print("walletParts", []wiretok.Stream{
		wiretok.Pair("wallet.OwnedCoins", "wallet", "OwnedCoins", "Serialize", "Deserialize"),
		wiretok.Pair("wallet.Coin", "wallet", "Coin", "Serialize", "Deserialize"),
	})
	// make(…) calls of the checkpoint readers whose size / capacity argument is not an integer literal
	var sized []string
	for _, st := range ss {
		for _, mk := range st.Makes {
			if strings.Contains(mk, ",") && !literalSize.MatchString(mk) {
				sized = append(sized, st.Name+": "+mk)
			}
		}
	}
	ex.DefStrList("sizedMakes", sized)

	// field coverage: (type, all struct fields, fields mentioned by Serialize, by Deserialize)
	type ft struct{ name, dir, recv string }
	fmt.Println("def fieldTable : List (String × List String × List String × List String) := [")
	fts := []ft{{"dpos.CheckPoint", D, "CheckPoint"}, {"dpos.StateKeyFrame", D, "StateKeyFrame"}, {"dpos.RewardData", D, "RewardData"},
		{"cr.Checkpoint", C, "Checkpoint"}, {"cr.KeyFrame", C, "KeyFrame"}, {"cr.StateKeyFrame", C, "StateKeyFrame"},
		{"cr.ProposalKeyFrame", C, "ProposalKeyFrame"}, {"cr.CRMember", C, "CRMember"}, {"cr.ProposalState", C, "ProposalState"},
		{"cr.DepositInfo", C, "DepositInfo"}, {"dpos.Producer", D, "Producer"},
		{"mempool.txPoolCheckpoint", "mempool", "txPoolCheckpoint"}, {"wallet.CoinsCheckPoint", "wallet", "CoinsCheckPoint"}}
	for i, t := range fts {
		sep := ","
		if i == len(fts)-1 {
			sep = ""
		}
		fmt.Printf("  (%s, %s, %s, %s)%s\n", ex.LeanStr(t.name), ex.StrList(wiretok.StructFields(t.dir, t.recv)),
			ex.StrList(wiretok.FieldMentions(t.dir, t.recv, "Serialize")), ex.StrList(wiretok.FieldMentions(t.dir, t.recv, "Deserialize")), sep)
	}
	fmt.Println("]")
	// the restore layer of the DPoS checkpoint: CheckPoint → Arbiters (recoverFromCheckPoints, run by
	// OnInit after Manager.Restore) and Arbiters → CheckPoint (initFromArbitrators, run by Snapshot):
	// the CheckPoint fields each of them mentions
	{
		bp := wiretok.Load(D)
		fd, ok := bp.Funcs["Arbiters.recoverFromCheckPoints"]
		if !ok || len(fd.Type.Params.List) != 1 || len(fd.Type.Params.List[0].Names) != 1 {
			ex.Die("dpos/state: Arbiters.recoverFromCheckPoints(point) not found")
		}
		param := fd.Type.Params.List[0].Names[0].Name
		isField := map[string]bool{}
		for _, f := range wiretok.StructFields(D, "CheckPoint") {
			isField[f] = true
		}
		seen := map[string]bool{}
		var rec []string
		ast.Inspect(fd.Body, func(n ast.Node) bool {
			if sel, ok := n.(*ast.SelectorExpr); ok {
				if x, ok := sel.X.(*ast.Ident); ok && x.Name == param && isField[sel.Sel.Name] && !seen[sel.Sel.Name] {
					seen[sel.Sel.Name] = true
					rec = append(rec, sel.Sel.Name)
				}
			}
			return true
		})
		sort.Strings(rec)
		fmt.Printf("def restoreLayer : List String × List String × List String :=\n  (%s,\n   %s,\n   %s)\n",
			ex.StrList(wiretok.StructFields(D, "CheckPoint")), ex.StrList(rec), ex.StrList(wiretok.FieldMentions(D, "CheckPoint", "initFromArbitrators")))
	}
	ex.Footer("C23")
}
