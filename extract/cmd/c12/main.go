// Facts for C12: how chain selection compares branches. The harness runs on regnet instant-block
// parameters where every block has the same work, so "height" and "work" cannot be told apart by
// execution; the comparison itself is tied to the source here.
package main

import (
	"go/ast"
	"strings"

	"elaverif/extract/ex"
)

func main() {
	ex.Header("C12")
	f := ex.Parse("blockchain/blockchain.go")
	var conds []string
	ast.Inspect(f.MustFunc("BlockChain.connectBestChain"), func(n ast.Node) bool {
		if i, ok := n.(*ast.IfStmt); ok {
			conds = append(conds, f.Src(i.Cond))
		}
		return true
	})
	ex.Comment("conditions of connectBestChain, in source order")
	ex.DefStrList("connectBestChainConds", conds)
	var work []string
	ast.Inspect(f.MustFunc("BlockChain.maybeAcceptBlock"), func(n ast.Node) bool {
		if c, ok := n.(*ast.CallExpr); ok && strings.Contains(f.Src(c.Fun), "WorkSum") {
			work = append(work, f.Src(c))
		}
		return true
	})
	ex.Comment("how a new node's cumulative work is formed (maybeAcceptBlock)")
	ex.DefStrList("workSumUpdates", work)
	bi := ex.Parse("blockchain/blockindex.go")
	var init []string
	ast.Inspect(bi.MustFunc("NewBlockNode"), func(n ast.Node) bool {
		if kv, ok := n.(*ast.KeyValueExpr); ok && bi.Src(kv.Key) == "WorkSum" {
			init = append(init, bi.Src(kv.Value))
		}
		return true
	})
	ex.DefStrList("workSumInit", init)
	ex.Footer("C12")
}
