// Facts for C35: the command switches that feed p2p.ReadMessage (which commands each
// network stack accepts, which message type is constructed, what its CMD() and
// MaxLength() are), the framing constants, and the order of the checks in
// CheckAndCreateMessage / CheckAndCreateTxMessage.
//
// The extractor prints facts only: case constants are resolved from the const
// declarations of the imported package, the message instance is built from a small
// registry (type name -> zero value) and asked for CMD() and MaxLength().
package main

import (
	"fmt"
	"go/ast"
	"go/token"
	"strconv"
	"strings"

	"elaverif/extract/ex"

	"github.com/elastos/Elastos.ELA/common"
	"github.com/elastos/Elastos.ELA/core/types"
	ctypes "github.com/elastos/Elastos.ELA/core/types/common"
	dmsg "github.com/elastos/Elastos.ELA/dpos/p2p/msg"
	"github.com/elastos/Elastos.ELA/elanet/pact"
	"github.com/elastos/Elastos.ELA/p2p"
	"github.com/elastos/Elastos.ELA/p2p/msg"
)

const modPath = "github.com/elastos/Elastos.ELA/"

// registry: (package dir, type name) -> instance
var registry = map[string]func() p2p.Message{
	"p2p/msg.Version":      func() p2p.Message { return &msg.Version{} },
	"p2p/msg.VerAck":       func() p2p.Message { return &msg.VerAck{} },
	"p2p/msg.GetAddr":      func() p2p.Message { return &msg.GetAddr{} },
	"p2p/msg.Addr":         func() p2p.Message { return &msg.Addr{} },
	"p2p/msg.Ping":         func() p2p.Message { return &msg.Ping{} },
	"p2p/msg.Pong":         func() p2p.Message { return &msg.Pong{} },
	"p2p/msg.MemPool":      func() p2p.Message { return &msg.MemPool{} },
	"p2p/msg.Tx":           func() p2p.Message { return &msg.Tx{} },
	"p2p/msg.Block":        func() p2p.Message { return msg.NewBlock(&types.DposBlock{}) },
	"p2p/msg.Inv":          func() p2p.Message { return &msg.Inv{} },
	"p2p/msg.NotFound":     func() p2p.Message { return &msg.NotFound{} },
	"p2p/msg.GetData":      func() p2p.Message { return &msg.GetData{} },
	"p2p/msg.GetBlocks":    func() p2p.Message { return &msg.GetBlocks{} },
	"p2p/msg.FilterAdd":    func() p2p.Message { return &msg.FilterAdd{} },
	"p2p/msg.FilterClear":  func() p2p.Message { return &msg.FilterClear{} },
	"p2p/msg.FilterLoad":   func() p2p.Message { return &msg.FilterLoad{} },
	"p2p/msg.TxFilterLoad": func() p2p.Message { return &msg.TxFilterLoad{} },
	"p2p/msg.Reject":       func() p2p.Message { return &msg.Reject{} },
	"p2p/msg.DAddr":        func() p2p.Message { return &msg.DAddr{} },
	"p2p/msg.MerkleBlock":  func() p2p.Message { return &msg.MerkleBlock{} },

	"dpos/p2p/msg.Version":                     func() p2p.Message { return &dmsg.Version{} },
	"dpos/p2p/msg.VerAck":                      func() p2p.Message { return &dmsg.VerAck{} },
	"dpos/p2p/msg.Addr":                        func() p2p.Message { return &dmsg.Addr{} },
	"dpos/p2p/msg.Ping":                        func() p2p.Message { return &dmsg.Ping{} },
	"dpos/p2p/msg.Pong":                        func() p2p.Message { return &dmsg.Pong{} },
	"dpos/p2p/msg.Vote":                        func() p2p.Message { return &dmsg.Vote{} },
	"dpos/p2p/msg.Proposal":                    func() p2p.Message { return &dmsg.Proposal{} },
	"dpos/p2p/msg.Inventory":                   func() p2p.Message { return &dmsg.Inventory{} },
	"dpos/p2p/msg.GetBlock":                    func() p2p.Message { return &dmsg.GetBlock{} },
	"dpos/p2p/msg.GetBlocks":                   func() p2p.Message { return &dmsg.GetBlocks{} },
	"dpos/p2p/msg.ResponseBlocks":              func() p2p.Message { return &dmsg.ResponseBlocks{} },
	"dpos/p2p/msg.RequestConsensus":            func() p2p.Message { return &dmsg.RequestConsensus{} },
	"dpos/p2p/msg.ResponseConsensus":           func() p2p.Message { return &dmsg.ResponseConsensus{} },
	"dpos/p2p/msg.RequestProposal":             func() p2p.Message { return &dmsg.RequestProposal{} },
	"dpos/p2p/msg.IllegalProposals":            func() p2p.Message { return &dmsg.IllegalProposals{} },
	"dpos/p2p/msg.IllegalVotes":                func() p2p.Message { return &dmsg.IllegalVotes{} },
	"dpos/p2p/msg.SidechainIllegalData":        func() p2p.Message { return &dmsg.SidechainIllegalData{} },
	"dpos/p2p/msg.ResponseInactiveArbitrators": func() p2p.Message { return &dmsg.ResponseInactiveArbitrators{} },
	"dpos/p2p/msg.ResponseRevertToDPOS":        func() p2p.Message { return &dmsg.ResponseRevertToDPOS{} },
	"dpos/p2p/msg.ResetView":                   func() p2p.Message { return &dmsg.ResetView{} },
}

// importsOf maps the local package names used in a file to repo-relative dirs.
func importsOf(f *ex.File) map[string]string {
	res := map[string]string{}
	for _, im := range f.AST.Imports {
		p, _ := strconv.Unquote(im.Path.Value)
		if !strings.HasPrefix(p, modPath) {
			continue
		}
		rel := strings.TrimPrefix(p, modPath)
		name := rel[strings.LastIndex(rel, "/")+1:]
		if im.Name != nil {
			name = im.Name.Name
		}
		res[name] = rel
	}
	return res
}

var constCache = map[string]map[string]string{}

// stringConsts returns the string constants declared in a package directory.
func stringConsts(dir string) map[string]string {
	if c, ok := constCache[dir]; ok {
		return c
	}
	c := map[string]string{}
	for _, f := range ex.ParseDir(dir) {
		for _, d := range f.AST.Decls {
			gd, ok := d.(*ast.GenDecl)
			if !ok || gd.Tok != token.CONST {
				continue
			}
			for _, s := range gd.Specs {
				vs := s.(*ast.ValueSpec)
				for i, n := range vs.Names {
					if i < len(vs.Values) {
						if bl, ok := vs.Values[i].(*ast.BasicLit); ok && bl.Kind == token.STRING {
							v, _ := strconv.Unquote(bl.Value)
							c[n.Name] = v
						}
					}
				}
			}
		}
	}
	constCache[dir] = c
	return c
}

func resolveConst(f *ex.File, imps map[string]string, e ast.Expr, ownDir string) string {
	switch x := e.(type) {
	case *ast.SelectorExpr:
		pkg, ok := x.X.(*ast.Ident)
		if !ok {
			ex.Die("%s: unsupported case expression %s", f.Path, f.Src(e))
		}
		dir, ok := imps[pkg.Name]
		if !ok {
			ex.Die("%s: unknown package %s in case %s", f.Path, pkg.Name, f.Src(e))
		}
		v, ok := stringConsts(dir)[x.Sel.Name]
		if !ok {
			ex.Die("%s: constant %s not found in %s", f.Path, f.Src(e), dir)
		}
		return v
	case *ast.Ident:
		v, ok := stringConsts(ownDir)[x.Name]
		if !ok {
			ex.Die("%s: constant %s not found", f.Path, x.Name)
		}
		return v
	case *ast.BasicLit:
		v, _ := strconv.Unquote(x.Value)
		return v
	}
	ex.Die("%s: unsupported case expression %s", f.Path, f.Src(e))
	return ""
}

// construct finds what a case body builds: a registry key, the source text, and the
// value of a `Command:` field if the literal sets one (dpos Vote).
func construct(f *ex.File, imps map[string]string, body []ast.Stmt) (key, src, command string) {
	for _, st := range body {
		ast.Inspect(st, func(n ast.Node) bool {
			if key != "" {
				return false
			}
			switch x := n.(type) {
			case *ast.CompositeLit:
				if se, ok := x.Type.(*ast.SelectorExpr); ok {
					if pkg, ok := se.X.(*ast.Ident); ok {
						if dir, ok := imps[pkg.Name]; ok && strings.HasSuffix(dir, "msg") {
							key, src = dir+"."+se.Sel.Name, f.Src(x)
							for _, el := range x.Elts {
								if kv, ok := el.(*ast.KeyValueExpr); ok {
									if id, ok := kv.Key.(*ast.Ident); ok && id.Name == "Command" {
										command = resolveConst(f, imps, kv.Value, "")
									}
								}
							}
							return false
						}
					}
				}
			case *ast.CallExpr:
				fn := f.Src(x.Fun)
				if strings.HasSuffix(fn, ".NewBlock") {
					if se, ok := x.Fun.(*ast.SelectorExpr); ok {
						if pkg, ok := se.X.(*ast.Ident); ok {
							key, src = imps[pkg.Name]+".Block", f.Src(x)
							return false
						}
					}
				}
				if strings.HasSuffix(fn, "CheckAndCreateTxMessage") {
					key, src = "p2p/msg.Tx", f.Src(x)
					return false
				}
			}
			return true
		})
		if key != "" {
			return
		}
	}
	return
}

func findSwitch(f *ex.File, root ast.Node) *ast.SwitchStmt {
	var sw *ast.SwitchStmt
	ast.Inspect(root, func(n ast.Node) bool {
		if sw != nil {
			return false
		}
		if s, ok := n.(*ast.SwitchStmt); ok && s.Tag != nil && strings.Contains(f.Src(s.Tag), "GetCMD()") {
			sw = s
			return false
		}
		return true
	})
	return sw
}

func emitSwitch(name, file, fn, ownDir string) {
	f := ex.Parse(file)
	fd := f.MustFunc(fn)
	sw := findSwitch(f, fd)
	if sw == nil {
		ex.Die("%s: no switch on hdr.GetCMD() in %s", file, fn)
	}
	imps := importsOf(f)
	fmt.Printf("/-- %s : %s -/\ndef %s : List Entry := [\n", file, fn, name)
	def := ""
	first := true
	for _, c := range sw.Body.List {
		cc := c.(*ast.CaseClause)
		if cc.List == nil {
			var parts []string
			for _, st := range cc.Body {
				parts = append(parts, f.Src(st))
			}
			def = strings.Join(parts, "; ")
			continue
		}
		key, src, command := construct(f, imps, cc.Body)
		if key == "" {
			ex.Die("%s: cannot tell which message case %s constructs", file, f.Src(cc.List[0]))
		}
		mk, ok := registry[key]
		if !ok {
			ex.Die("%s: message type %s is not in the extractor registry", file, key)
		}
		for _, e := range cc.List {
			m := mk()
			if v, ok := m.(*dmsg.Vote); ok {
				v.Command = command
			}
			if !first {
				fmt.Println(",")
			}
			first = false
			cmd := resolveConst(f, imps, e, ownDir)
			var bs []string
			for _, b := range []byte(cmd) {
				bs = append(bs, strconv.Itoa(int(b)))
			}
			fmt.Printf("  ⟨%s, [%s], %s, %s, %s, %d⟩", ex.LeanStr(cmd), strings.Join(bs, ", "), ex.LeanStr(key), ex.LeanStr(src), ex.LeanStr(m.CMD()), m.MaxLength())
		}
	}
	fmt.Printf("]\n")
	ex.DefStr(name+"Default", def)
	fmt.Println()
}

// checkSteps lists, in source order, the guards and effects of a CheckAndCreate* function.
func checkSteps(name, fn string) {
	f := ex.Parse("p2p/peer/peer.go")
	fd := f.MustFunc(fn)
	var steps []string
	ast.Inspect(fd.Body, func(n ast.Node) bool {
		switch x := n.(type) {
		case *ast.IfStmt:
			if x.Init != nil {
				steps = append(steps, "if-init "+f.Src(x.Init))
			}
			steps = append(steps, "if "+f.Src(x.Cond))
		case *ast.AssignStmt:
			for _, r := range x.Rhs {
				if c, ok := r.(*ast.CallExpr); ok {
					steps = append(steps, "call "+f.Src(c))
				}
			}
		case *ast.ReturnStmt:
			var rs []string
			for _, r := range x.Results {
				rs = append(rs, f.Src(r))
			}
			steps = append(steps, "return "+strings.Join(rs, ", "))
		}
		return true
	})
	ex.DefStrList(name, steps)
}

func main() {
	ex.Header("C35")
	fmt.Println("structure Entry where\n  caseCmd : String   -- value of the case constant\n  caseBytes : List UInt8  -- the same, as bytes\n  type : String      -- package.Type of the constructed message\n  ctor : String      -- source text of the construction\n  typeCmd : String   -- CMD() of the constructed message\n  max : Nat          -- MaxLength() of the constructed message\nderiving DecidableEq, Repr\n")
	ex.DefNat("headerSize", p2p.HeaderSize)
	ex.DefNat("cmdSize", p2p.CMDSize)
	ex.DefNat("cmdOffset", p2p.CMDOffset)
	ex.DefNat("checksumSize", p2p.ChecksumSize)
	ex.DefNat("maxMessagePayload", p2p.MaxMessagePayload)
	// limits used by the fixed-layout decoders modelled in Model/P2PMsg.lean
	ex.DefNat("crProposalVersion", pact.CRProposalVersion)
	ex.DefNat("maxInvPerMsg", msg.MaxInvPerMsg)
	ex.DefNat("maxBlockLocatorsPerMsg", msg.MaxBlockLocatorsPerMsg)
	ex.DefNat("maxAddrPerMsg", msg.MaxAddrPerMsg)
	ex.DefNat("maxFilterAddDataSize", msg.MaxFilterAddDataSize)
	ex.DefNat("maxTxFilterLoadDataSize", msg.MaxTxFilterLoadDataSize)
	ex.DefNat("maxVarStringLength", common.MaxVarStringLength)
	fmt.Println()
	emitSwitch("p2pPeer", "p2p/peer/peer.go", "Peer.createMessage", "p2p/peer")
	emitSwitch("elanetServer", "elanet/server.go", "createMessage", "elanet")
	emitSwitch("dposPeer", "dpos/p2p/peer/peer.go", "Peer.createMessage", "dpos/p2p/peer")
	emitSwitch("dposNetwork", "dpos/network.go", "createMessage", "dpos")
	emitSwitch("checkAddr", "p2p/server/server.go", "server.checkAddr", "p2p/server")
	// messages the node writes but no switch of the node reads (an SPV peer does)
	mb := msg.NewMerkleBlock(&ctypes.Header{})
	var mbs []string
	for _, b := range []byte(mb.CMD()) {
		mbs = append(mbs, strconv.Itoa(int(b)))
	}
	fmt.Printf("def writeOnly : List Entry := [\n  ⟨%s, [%s], \"p2p/msg.MerkleBlock\", \"bloom.NewMerkleBlock(block, filter)\", %s, %d⟩]\n",
		ex.LeanStr(mb.CMD()), strings.Join(mbs, ", "), ex.LeanStr(mb.CMD()), mb.MaxLength())
	ex.DefNat("maxTxPerBlock", pact.MaxTxPerBlock)
	checkSteps("checkAndCreateMessage", "CheckAndCreateMessage")
	checkSteps("checkAndCreateTxMessage", "CheckAndCreateTxMessage")

	// ReadMessage: the order of its guards
	f := ex.Parse("p2p/message.go")
	fd := f.MustFunc("ReadMessage")
	var steps []string
	ast.Inspect(fd.Body, func(n ast.Node) bool {
		switch x := n.(type) {
		case *ast.IfStmt:
			if x.Init != nil {
				steps = append(steps, "if-init "+f.Src(x.Init))
			}
			steps = append(steps, "if "+f.Src(x.Cond))
		case *ast.ReturnStmt:
			var rs []string
			for _, r := range x.Results {
				rs = append(rs, f.Src(r))
			}
			steps = append(steps, "return "+strings.Join(rs, ", "))
		}
		return true
	})
	ex.DefStrList("readMessage", steps)

	// the read loops: what happens on a read error, and what follows the loop
	var ends []string
	var after [][]string
	for _, file := range []string{"p2p/peer/peer.go", "dpos/p2p/peer/peer.go"} {
		pf := ex.Parse(file)
		ih := pf.MustFunc("Peer.inHandler")
		for i, st := range ih.Body.List {
			ls, ok := st.(*ast.LabeledStmt)
			if !ok {
				continue
			}
			loop, ok := ls.Stmt.(*ast.ForStmt)
			if !ok {
				continue
			}
			end := "?"
			for _, b := range loop.Body.List {
				if is, ok := b.(*ast.IfStmt); ok && pf.Src(is.Cond) == "err != nil" && len(is.Body.List) > 0 {
					end = pf.Src(is.Body.List[len(is.Body.List)-1])
					break
				}
			}
			ends = append(ends, end)
			var rest []string
			for _, a := range ih.Body.List[i+1:] {
				rest = append(rest, pf.Src(a))
			}
			after = append(after, rest)
			break
		}
	}
	ex.DefStrList("inHandlerErrEnds", ends)
	fmt.Print("def inHandlerAfterLoop : List (List String) := [")
	for i, a := range after {
		if i > 0 {
			fmt.Print(", ")
		}
		fmt.Print(ex.StrList(a))
	}
	fmt.Println("]")
	ex.Footer("C35")
}
