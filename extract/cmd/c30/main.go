// Facts for C30: where the irreversibility guard is consulted, which functions start a
// reorganisation, and the statements of tryUpdateLastIrreversibleHeight / IsIrreversible
// (as source text) that the Lean model transcribes.
package main

import (
	"fmt"
	"go/ast"
	"sort"
	"strings"

	"elaverif/extract/ex"
)

func main() {
	ex.Header("C30")
	files := ex.ParseDir("blockchain")
	var guard, reorg []string
	for _, f := range files {
		for _, d := range f.AST.Decls {
			fd, ok := d.(*ast.FuncDecl)
			if !ok || fd.Body == nil {
				continue
			}
			ast.Inspect(fd.Body, func(n ast.Node) bool {
				c, ok := n.(*ast.CallExpr)
				if !ok {
					return true
				}
				fun := f.Src(c.Fun)
				var args []string
				for _, a := range c.Args {
					args = append(args, f.Src(a))
				}
				if strings.HasSuffix(fun, ".IsIrreversible") {
					guard = append(guard, fmt.Sprintf("%s: %s(%s)", fd.Name.Name, fun, strings.Join(args, ", ")))
				}
				if strings.HasSuffix(fun, ".reorganizeChain") || strings.HasSuffix(fun, ".reorganizeChain2") {
					reorg = append(reorg, fmt.Sprintf("%s: %s", fd.Name.Name, fun))
				}
				return true
			})
		}
	}
	sort.Strings(guard)
	sort.Strings(reorg)
	ex.Comment("call sites of State.IsIrreversible in package blockchain")
	ex.DefStrList("guardSites", guard)
	ex.Comment("functions that start a reorganisation")
	ex.DefStrList("reorgSites", reorg)

	st := ex.Parse("dpos/state/state.go")
	facts := func(name string) []string {
		fd := st.MustFunc("State." + name)
		var res []string
		ast.Inspect(fd.Body, func(n ast.Node) bool {
			switch x := n.(type) {
			case *ast.IfStmt:
				res = append(res, "if "+st.Src(x.Cond))
			case *ast.AssignStmt:
				s := st.Src(x)
				if strings.Contains(s, "LastIrreversibleHeight") || strings.Contains(s, "DPOSStartHeight") {
					if !strings.HasPrefix(s, "ori") {
						res = append(res, s)
					}
				}
			case *ast.IncDecStmt:
				res = append(res, st.Src(x))
			case *ast.ReturnStmt:
				if len(x.Results) > 0 {
					res = append(res, "return "+st.Src(x.Results[0]))
				}
			}
			return true
		})
		return res
	}
	ex.DefStrList("isIrreversibleBody", facts("IsIrreversible"))
	ex.DefStrList("tryUpdateBody", facts("tryUpdateLastIrreversibleHeight"))
	// the constant
	for _, d := range st.AST.Decls {
		if g, ok := d.(*ast.GenDecl); ok {
			for _, sp := range g.Specs {
				if v, ok := sp.(*ast.ValueSpec); ok {
					for i, n := range v.Names {
						if n.Name == "IrreversibleHeight" && i < len(v.Values) {
							fmt.Printf("def irreversibleHeight : Nat := %s\n", st.Src(v.Values[i]))
						}
					}
				}
			}
		}
	}
	ex.Footer("C30")
}
