module elaverif/extract

go 1.20

require github.com/elastos/Elastos.ELA v0.0.0

require (
	github.com/itchyny/base58-go v0.1.0 // indirect
	golang.org/x/crypto v0.17.0 // indirect
)

replace github.com/elastos/Elastos.ELA => /repo
