// Package exg holds the type-aware helpers of the fact extractors
// (golang.org/x/tools/go/packages, offline).  Like package ex it only
// *prints facts*; it never decides.
package exg

import (
	"go/ast"
	"go/constant"
	"go/types"
	"os"
	"strings"

	"elaverif/extract/ex"

	"golang.org/x/tools/go/packages"
)

const Module = "github.com/elastos/Elastos.ELA"

// Load type-checks the given package patterns of the repository working tree
// (production build: no `verif` tag, no test files).  With deps the whole
// import closure is loaded from source.
func Load(deps bool, patterns ...string) []*packages.Package {
	mode := packages.NeedName | packages.NeedFiles | packages.NeedSyntax | packages.NeedTypes |
		packages.NeedTypesInfo | packages.NeedImports | packages.NeedModule
	if deps {
		mode |= packages.NeedDeps
	}
	cfg := &packages.Config{Mode: mode, Dir: *ex.Repo,
		Env: append(os.Environ(), "GOFLAGS=-mod=mod", "GOPROXY=off", "GOSUMDB=off", "GOTOOLCHAIN=local", "CGO_ENABLED=0")}
	pkgs, err := packages.Load(cfg, patterns...)
	if err != nil {
		ex.Die("packages.Load %v: %v", patterns, err)
	}
	for _, p := range pkgs {
		if len(p.Errors) > 0 {
			ex.Die("package %s does not type-check: %v", p.PkgPath, p.Errors[0])
		}
	}
	return pkgs
}

// Pkg returns the loaded package with the given path suffix (relative to the module).
func Pkg(pkgs []*packages.Package, rel string) *packages.Package {
	var found *packages.Package
	packages.Visit(pkgs, nil, func(p *packages.Package) {
		if p.PkgPath == Module+"/"+rel {
			found = p
		}
	})
	if found == nil {
		ex.Die("package %s not loaded", rel)
	}
	return found
}

// FuncDecl finds "Name" or "Recv.Name" in a package.
func FuncDecl(p *packages.Package, name string) *ast.FuncDecl {
	for _, f := range p.Syntax {
		for _, d := range f.Decls {
			fd, ok := d.(*ast.FuncDecl)
			if !ok {
				continue
			}
			full := fd.Name.Name
			if r := ex.RecvName(fd); r != "" {
				full = r + "." + full
			}
			if full == name {
				return fd
			}
		}
	}
	ex.Die("%s: function %s not found", p.PkgPath, name)
	return nil
}

// ConstString renders the constant value of an expression ("" if not constant).
func ConstString(p *packages.Package, e ast.Expr) (string, bool) {
	tv, ok := p.TypesInfo.Types[e]
	if !ok || tv.Value == nil {
		return "", false
	}
	if tv.Value.Kind() == constant.String {
		return constant.StringVal(tv.Value), true
	}
	return tv.Value.ExactString(), true
}

// CalleeName gives a stable, qualified name of the function a call expression
// statically resolves to ("" for dynamic calls and conversions):
// "pkgpath.Func" or "pkgpath.(Recv).Method" with the module prefix stripped.
func CalleeName(p *packages.Package, c *ast.CallExpr) string {
	var id *ast.Ident
	switch f := ast.Unparen(c.Fun).(type) {
	case *ast.Ident:
		id = f
	case *ast.SelectorExpr:
		id = f.Sel
	default:
		return ""
	}
	fn, ok := p.TypesInfo.Uses[id].(*types.Func)
	if !ok {
		return ""
	}
	return FuncName(fn)
}

// FuncName is the qualified display name of a function object.
func FuncName(fn *types.Func) string {
	s := fn.FullName()
	return strings.ReplaceAll(s, Module+"/", "")
}

// SwitchCases lists, for every `switch` statement directly or indirectly inside
// node n whose tag prints as tagSrc, the constant values of its case expressions
// (one list per clause; the default clause is the empty list).
func SwitchCases(p *packages.Package, n ast.Node, tagSrc string, src func(ast.Node) string) [][]string {
	var res [][]string
	ast.Inspect(n, func(x ast.Node) bool {
		sw, ok := x.(*ast.SwitchStmt)
		if !ok || sw.Tag == nil || src(sw.Tag) != tagSrc {
			return true
		}
		for _, cl := range sw.Body.List {
			cc := cl.(*ast.CaseClause)
			vals := []string{}
			for _, e := range cc.List {
				v, ok := ConstString(p, e)
				if !ok {
					v = "?" + src(e)
				}
				vals = append(vals, v)
			}
			res = append(res, vals)
		}
		return true
	})
	return res
}

// Src prints a node back to source text (single line, collapsed whitespace).
func Src(p *packages.Package, n ast.Node) string {
	f := &ex.File{Fset: p.Fset}
	return f.Src(n)
}

// StaticCalls lists the statically resolved callees of a node in source order.
func StaticCalls(p *packages.Package, n ast.Node) []string {
	var res []string
	ast.Inspect(n, func(x ast.Node) bool {
		if c, ok := x.(*ast.CallExpr); ok {
			if s := CalleeName(p, c); s != "" {
				res = append(res, s)
			}
		}
		return true
	})
	return res
}

// CallSite is one static call of a function: the enclosing function and the
// source text of the arguments.
type CallSite struct {
	Caller string
	Args   []string
}

// CallSites lists every call in the given packages whose statically resolved
// callee name equals callee ("src:<text>": the called expression prints as text,
// for calls through function variables; "method:<name>": any method of that name) (calls inside function literals are attributed to
// the enclosing declared function).
func CallSites(ps []*packages.Package, callee string) []CallSite {
	var res []CallSite
	for _, p := range ps {
		for _, f := range p.Syntax {
			for _, d := range f.Decls {
				fd, ok := d.(*ast.FuncDecl)
				if !ok || fd.Body == nil {
					continue
				}
				name := fd.Name.Name
				if r := ex.RecvName(fd); r != "" {
					name = r + "." + name
				}
				name = strings.TrimPrefix(strings.TrimPrefix(p.PkgPath, Module), "/") + "." + name
				ast.Inspect(fd.Body, func(x ast.Node) bool {
					if c, ok := x.(*ast.CallExpr); ok && (CalleeName(p, c) == callee ||
						(strings.HasPrefix(callee, "src:") && Src(p, c.Fun) == callee[4:]) ||
						(strings.HasPrefix(callee, "method:") && isMethodCall(p, c, callee[7:]))) {
						cs := CallSite{Caller: name}
						for _, a := range c.Args {
							cs.Args = append(cs.Args, Src(p, a))
						}
						res = append(res, cs)
					}
					return true
				})
			}
		}
	}
	return res
}

func isMethodCall(p *packages.Package, c *ast.CallExpr, name string) bool {
	sel, ok := c.Fun.(*ast.SelectorExpr)
	if !ok || sel.Sel.Name != name {
		return false
	}
	_, isFunc := p.TypesInfo.Uses[sel.Sel].(*types.Func)
	return isFunc
}
