package exg

// Reference graph of the repository's own packages, for the reachability
// certificates of C24 / C38 (DESIGN §6, Model/Reach.lean).
//
// Nodes
//   func   every function / method declared in a module package
//   lit    every function literal (own node; its enclosing function refers to it)
//   var    every package-level variable of a module package
//   field  every struct field of a module package that is referred to
//   ext    every function / package-level variable of a package outside the module
//          that a module function refers to (leaf: never expanded), and every
//          object (type, const, ...) of a "sensitive" external package
//
// Edge a → b  ("a refers to b"; a superset of "a may call b"):
//   * the body of a mentions function b (call or function value), variable b, field b;
//   * a invokes interface method I.m: b ranges over the method m of every named
//     type of the module that implements I (class-hierarchy analysis);
//   * a is a variable / field and some assignment, composite literal or
//     initializer anywhere in the module stores into a (or into a container
//     rooted at a) an expression that mentions b;
//   * a is a function and b a literal written inside it.
//
// Values therefore flow: through calls (the caller mentions what it passes, the
// callee what it returns), through fields and package variables (store → field
// → everything the stored expression mentions) and through interfaces (CHA).
// Not covered: reflection, unsafe, cgo, function values travelling only through
// channels or through containers held in local variables of *other* functions.

import (
	"fmt"
	"go/ast"
	"go/token"
	"go/types"
	"math/big"
	"path/filepath"
	"sort"
	"strings"

	"golang.org/x/tools/go/packages"
)

type Node struct {
	Name string // unique display name
	Pkg  string // package path (module prefix stripped for module packages)
	Kind string // func | lit | var | field | ext
	File string // declaring file (module relative) for func/lit
}

type Graph struct {
	Nodes []Node
	ids   map[string]int
	Out   [][]int
	edge  map[[2]int]bool
}

func (g *Graph) node(name, pkg, kind, file string) int {
	if id, ok := g.ids[name]; ok {
		return id
	}
	id := len(g.Nodes)
	g.ids[name] = id
	g.Nodes = append(g.Nodes, Node{name, pkg, kind, file})
	g.Out = append(g.Out, nil)
	return id
}

func (g *Graph) add(a, b int) {
	if a == b || g.edge[[2]int{a, b}] {
		return
	}
	g.edge[[2]int{a, b}] = true
	g.Out[a] = append(g.Out[a], b)
}

// ID returns the node id of a name (-1 if absent).
func (g *Graph) ID(name string) int {
	if id, ok := g.ids[name]; ok {
		return id
	}
	return -1
}

// MakeLeaves drops the out-edges of every node selected by leaf (those nodes
// stay in the graph as leaves, like nodes of packages outside the module).
func (g *Graph) MakeLeaves(leaf func(Node) bool) {
	for i, n := range g.Nodes {
		if leaf(n) {
			for _, b := range g.Out[i] {
				delete(g.edge, [2]int{i, b})
			}
			g.Out[i] = nil
		}
	}
}

// Reach computes the forward closure of the seeds.
func (g *Graph) Reach(seeds []int) []bool {
	seen := make([]bool, len(g.Nodes))
	stack := append([]int(nil), seeds...)
	for _, s := range seeds {
		seen[s] = true
	}
	for len(stack) > 0 {
		a := stack[len(stack)-1]
		stack = stack[:len(stack)-1]
		for _, b := range g.Out[a] {
			if !seen[b] {
				seen[b] = true
				stack = append(stack, b)
			}
		}
	}
	return seen
}

// Path returns one path from a seed to target (for diagnostics printed as comments).
func (g *Graph) Path(seeds []int, target int) []int {
	prev := make([]int, len(g.Nodes))
	for i := range prev {
		prev[i] = -2
	}
	queue := append([]int(nil), seeds...)
	for _, s := range seeds {
		prev[s] = -1
	}
	for len(queue) > 0 {
		a := queue[0]
		queue = queue[1:]
		if a == target {
			var p []int
			for x := a; x >= 0; x = prev[x] {
				p = append([]int{x}, p...)
			}
			return p
		}
		for _, b := range g.Out[a] {
			if prev[b] == -2 {
				prev[b] = a
				queue = append(queue, b)
			}
		}
	}
	return nil
}

func inModule(p *types.Package) bool {
	return p != nil && (p.Path() == Module || strings.HasPrefix(p.Path(), Module+"/"))
}

func relPkg(p *types.Package) string {
	if p == nil {
		return "builtin"
	}
	return strings.TrimPrefix(strings.TrimPrefix(p.Path(), Module), "/")
}

// Sensitive external packages: every object of these (types and constants
// too) becomes an ext node when mentioned.
var Sensitive = map[string]bool{"math/rand": true, "math/rand/v2": true, "golang.org/x/exp/rand": true}

// carriesCode reports whether a value of type t can hold (directly or inside)
// a function value or an interface value, i.e. something that can be called.
func (b *builder) carriesCode(t types.Type) bool {
	if t == nil {
		return true
	}
	if v, ok := b.code[t]; ok {
		return v
	}
	b.code[t] = false // cycles: assume no until shown otherwise
	res := false
	switch u := t.(type) {
	case *types.Named:
		res = b.carriesCode(u.Underlying())
		if !res && u.TypeArgs() != nil {
			for i := 0; i < u.TypeArgs().Len(); i++ {
				res = res || b.carriesCode(u.TypeArgs().At(i))
			}
		}
	case *types.Alias:
		res = b.carriesCode(types.Unalias(u))
	case *types.Signature, *types.Interface, *types.TypeParam:
		res = true
	case *types.Pointer:
		res = b.carriesCode(u.Elem())
	case *types.Slice:
		res = b.carriesCode(u.Elem())
	case *types.Array:
		res = b.carriesCode(u.Elem())
	case *types.Chan:
		res = b.carriesCode(u.Elem())
	case *types.Map:
		res = b.carriesCode(u.Key()) || b.carriesCode(u.Elem())
	case *types.Struct:
		for i := 0; i < u.NumFields(); i++ {
			if b.carriesCode(u.Field(i).Type()) {
				res = true
				break
			}
		}
	case *types.Tuple:
		for i := 0; i < u.Len(); i++ {
			if b.carriesCode(u.At(i).Type()) {
				res = true
				break
			}
		}
	case *types.Basic:
		res = u.Kind() == types.UnsafePointer
	}
	b.code[t] = res
	return res
}

type builder struct {
	code  map[types.Type]bool
	g     *Graph
	fset  *token.FileSet
	repo  string
	named []*types.Named           // named non-interface types of the module
	impl  map[string][]*types.Func // interface-method key → implementations
	lits  map[token.Pos]int        // literal position → node
}

func (b *builder) relFile(pos token.Pos) string {
	f := b.fset.Position(pos).Filename
	if r, err := filepath.Rel(b.repo, f); err == nil {
		return r
	}
	return f
}

func (b *builder) funcNode(fn *types.Func) int {
	fn = fn.Origin()
	if inModule(fn.Pkg()) {
		return b.g.node(FuncName(fn), relPkg(fn.Pkg()), "func", b.relFile(fn.Pos()))
	}
	return b.g.node(FuncName(fn), relPkg(fn.Pkg()), "ext", "")
}

func (b *builder) varNode(v *types.Var) int {
	v = v.Origin()
	if !b.carriesCode(v.Type()) {
		return -1 // plain data: cannot hold anything callable
	}
	if v.IsField() {
		if !inModule(v.Pkg()) {
			return -1
		}
		p := b.fset.Position(v.Pos())
		return b.g.node(fmt.Sprintf("field %s.%s@%s:%d", relPkg(v.Pkg()), v.Name(), filepath.Base(p.Filename), p.Line), relPkg(v.Pkg()), "field", "")
	}
	if v.Pkg() == nil || v.Parent() != v.Pkg().Scope() {
		return -1 // local variable / parameter
	}
	if inModule(v.Pkg()) {
		return b.g.node("var "+relPkg(v.Pkg())+"."+v.Name(), relPkg(v.Pkg()), "var", "")
	}
	return b.g.node("var "+relPkg(v.Pkg())+"."+v.Name(), relPkg(v.Pkg()), "ext", "")
}

// implementations of interface method m (declared on interface type it).
func (b *builder) implementers(it *types.Interface, m *types.Func) []*types.Func {
	key := fmt.Sprintf("%p.%s", it, m.Name())
	if r, ok := b.impl[key]; ok {
		return r
	}
	var res []*types.Func
	for _, n := range b.named {
		var recv types.Type = n
		if !types.Implements(recv, it) {
			recv = types.NewPointer(n)
			if !types.Implements(recv, it) {
				continue
			}
		}
		sel := types.NewMethodSet(recv).Lookup(m.Pkg(), m.Name())
		if sel == nil {
			continue
		}
		if f, ok := sel.Obj().(*types.Func); ok {
			if _, isIface := f.Type().(*types.Signature).Recv().Type().Underlying().(*types.Interface); !isIface {
				res = append(res, f)
			}
		}
	}
	b.impl[key] = res
	return res
}

// refer adds the edges "cur refers to obj".
func (b *builder) refer(cur int, obj types.Object) {
	switch o := obj.(type) {
	case *types.Func:
		sig := o.Type().(*types.Signature)
		if r := sig.Recv(); r != nil {
			if it, ok := r.Type().Underlying().(*types.Interface); ok {
				for _, f := range b.implementers(it, o) {
					b.g.add(cur, b.funcNode(f))
				}
				if !inModule(o.Pkg()) && o.Pkg() != nil && Sensitive[o.Pkg().Path()] {
					b.g.add(cur, b.funcNode(o))
				}
				return
			}
		}
		b.g.add(cur, b.funcNode(o))
	case *types.Var:
		if id := b.varNode(o); id >= 0 {
			b.g.add(cur, id)
		}
	default:
		if obj != nil && obj.Pkg() != nil && Sensitive[obj.Pkg().Path()] {
			b.g.add(cur, b.g.node(obj.Pkg().Path()+"."+obj.Name(), obj.Pkg().Path(), "ext", ""))
		}
	}
}

// rootObj strips index / slice / star / paren expressions: the variable or field
// a store ultimately goes into.
func rootObj(info *types.Info, e ast.Expr) types.Object {
	for {
		switch x := e.(type) {
		case *ast.ParenExpr:
			e = x.X
		case *ast.IndexExpr:
			e = x.X
		case *ast.SliceExpr:
			e = x.X
		case *ast.StarExpr:
			e = x.X
		case *ast.Ident:
			return info.Uses[x]
		case *ast.SelectorExpr:
			return info.Uses[x.Sel]
		default:
			return nil
		}
	}
}

// walk visits n; everything mentioned becomes a successor of every node in curs.
func (b *builder) walk(p *packages.Package, n ast.Node, curs []int, owner string, store bool) {
	info := p.TypesInfo
	ast.Inspect(n, func(x ast.Node) bool {
		if store {
			// store mode: only what can end up inside the stored value matters
			if ex, ok := x.(ast.Expr); ok {
				if tv, ok := info.Types[ex]; ok && tv.Type != nil && !b.carriesCode(tv.Type) {
					return false
				}
			}
		}
		switch e := x.(type) {
		case *ast.FuncLit:
			id, seen := b.lits[e.Pos()]
			if !seen {
				pos := b.fset.Position(e.Pos())
				id = b.g.node(fmt.Sprintf("%s$lit@%s:%d:%d", owner, filepath.Base(pos.Filename), pos.Line, pos.Column), relPkg(p.Types), "lit", b.relFile(e.Pos()))
				b.lits[e.Pos()] = id
			}
			for _, c := range curs {
				b.g.add(c, id)
			}
			if !seen {
				b.walk(p, e.Body, []int{id}, owner, false)
			}
			return false
		case *ast.Ident:
			if obj := info.Uses[e]; obj != nil {
				for _, c := range curs {
					b.refer(c, obj)
				}
			}
		case *ast.AssignStmt:
			for i, l := range e.Lhs {
				obj := rootObj(info, l)
				v, ok := obj.(*types.Var)
				if !ok {
					continue
				}
				id := b.varNode(v)
				if id < 0 {
					continue
				}
				if len(e.Lhs) == len(e.Rhs) {
					b.walk(p, e.Rhs[i], []int{id}, owner, true)
				} else {
					for _, r := range e.Rhs {
						b.walk(p, r, []int{id}, owner, true)
					}
				}
			}
		case *ast.CompositeLit:
			tv, ok := info.Types[e]
			if !ok {
				break
			}
			t := tv.Type
			if pt, ok := t.Underlying().(*types.Pointer); ok {
				t = pt.Elem()
			}
			st, ok := t.Underlying().(*types.Struct)
			if !ok {
				break
			}
			for i, el := range e.Elts {
				var fv *types.Var
				var val ast.Expr
				if kv, ok := el.(*ast.KeyValueExpr); ok {
					if k, ok := kv.Key.(*ast.Ident); ok {
						fv, _ = info.Uses[k].(*types.Var)
					}
					val = kv.Value
				} else if i < st.NumFields() {
					fv, val = st.Field(i), el
				}
				if fv != nil {
					if id := b.varNode(fv); id >= 0 {
						b.walk(p, val, []int{id}, owner, true)
					}
				}
			}
		}
		return true
	})
}

// BuildGraph builds the reference graph of all module packages among pkgs (and their deps).
func BuildGraph(pkgs []*packages.Package, repo string) *Graph {
	g := &Graph{ids: map[string]int{}, edge: map[[2]int]bool{}}
	b := &builder{g: g, repo: repo, code: map[types.Type]bool{}, impl: map[string][]*types.Func{}, lits: map[token.Pos]int{}}
	var mods []*packages.Package
	packages.Visit(pkgs, nil, func(p *packages.Package) {
		if inModule(p.Types) {
			mods = append(mods, p)
		}
	})
	sort.Slice(mods, func(i, j int) bool { return mods[i].PkgPath < mods[j].PkgPath })
	if len(mods) == 0 {
		return g
	}
	b.fset = mods[0].Fset
	for _, p := range mods {
		var defs []*types.TypeName
		for _, obj := range p.TypesInfo.Defs {
			if tn, ok := obj.(*types.TypeName); ok && !tn.IsAlias() {
				defs = append(defs, tn)
			}
		}
		sort.Slice(defs, func(i, j int) bool { // token.Pos depends on parse order: sort by file and offset
			a, c := b.fset.Position(defs[i].Pos()), b.fset.Position(defs[j].Pos())
			if a.Filename != c.Filename {
				return a.Filename < c.Filename
			}
			return a.Offset < c.Offset
		})
		for _, tn := range defs {
			if n, ok := tn.Type().(*types.Named); ok {
				if _, isI := n.Underlying().(*types.Interface); !isI && n.TypeParams().Len() == 0 {
					b.named = append(b.named, n)
				}
			}
		}
	}
	for _, p := range mods {
		for _, f := range p.Syntax {
			for _, d := range f.Decls {
				switch dd := d.(type) {
				case *ast.FuncDecl:
					fn, ok := p.TypesInfo.Defs[dd.Name].(*types.Func)
					if !ok || dd.Body == nil {
						continue
					}
					id := b.funcNode(fn)
					b.walk(p, dd.Body, []int{id}, FuncName(fn), false)
				case *ast.GenDecl:
					if dd.Tok != token.VAR {
						continue
					}
					for _, s := range dd.Specs {
						vs := s.(*ast.ValueSpec)
						for i, nm := range vs.Names {
							v, ok := p.TypesInfo.Defs[nm].(*types.Var)
							if !ok {
								continue
							}
							id := b.varNode(v)
							if id < 0 {
								continue
							}
							if len(vs.Values) == len(vs.Names) {
								b.walk(p, vs.Values[i], []int{id}, "var "+relPkg(p.Types)+"."+v.Name(), true)
							} else {
								for _, val := range vs.Values {
									b.walk(p, val, []int{id}, "var "+relPkg(p.Types)+"."+v.Name(), true)
								}
							}
						}
					}
				}
			}
		}
	}
	return g
}

// ---------------------------------------------------------------- certificate output

func chunked(n, size int, f func(lo, hi int)) {
	for lo := 0; lo < n; lo += size {
		hi := lo + size
		if hi > n {
			hi = n
		}
		f(lo, hi)
	}
}

// EmitCert prints the graph in the packed form Model/Reach.lean reads (package
// table, node ↦ package table, adjacency words), and the candidate closed set
// (forward closure of the seeds, as a bit mask).  Lean re-checks closedness and
// classifies nodes by package itself; nothing printed here is a verdict.
func EmitCert(g *Graph, seeds []int) {
	if len(g.Nodes) >= 0xFFFF {
		panic("graph too large for 16-bit packing")
	}
	pkgIdx := map[string]int{}
	var pkgs []string
	for _, n := range g.Nodes {
		if _, ok := pkgIdx[n.Pkg]; !ok {
			pkgIdx[n.Pkg] = len(pkgs)
			pkgs = append(pkgs, n.Pkg)
		}
	}
	fmt.Printf("/-- package paths (module packages relative to the module root) -/\ndef pkgs : List String := [%s]\n\n", quoteJoin(pkgs))
	fmt.Printf("def nodeCount : Nat := %d\n\n", len(g.Nodes))
	// node ↦ package index, 16-bit fields, node 0 in the lowest field
	tbl := new(big.Int)
	for i := len(g.Nodes) - 1; i >= 0; i-- {
		tbl.Lsh(tbl, 16)
		tbl.Or(tbl, big.NewInt(int64(pkgIdx[g.Nodes[i].Pkg])))
	}
	fmt.Printf("/-- node id ↦ index into `pkgs` (16-bit fields, `Reach.tblGet`) -/\ndef nodePkgTbl : Nat := 0x%s\n\n", tbl.Text(16))
	nEdges, maxDeg := 0, 0
	var words []string
	for a, outs := range g.Out {
		if len(outs) == 0 {
			continue
		}
		nEdges += len(outs)
		if len(outs) > maxDeg {
			maxDeg = len(outs)
		}
		w := new(big.Int)
		for i := len(outs) - 1; i >= 0; i-- {
			w.Lsh(w, 16)
			w.Or(w, big.NewInt(int64(outs[i]+1)))
		}
		w.Lsh(w, 16)
		w.Or(w, big.NewInt(int64(a+1)))
		words = append(words, "0x"+w.Text(16))
	}
	fmt.Printf("def edgeCount : Nat := %d\n", nEdges)
	fmt.Printf("/-- decoding fuel: largest out-degree + 1 -/\ndef fuel : Nat := %d\n", maxDeg+1)
	fmt.Printf("/-! adjacency words (`Reach.edgesOfWord`): fields id+1, first the source then its successors -/\n")
	var names []string
	chunked(len(words), 32, func(lo, hi int) {
		nm := fmt.Sprintf("adj%d", lo/32)
		names = append(names, nm)
		fmt.Printf("def %s : List Nat := [%s]\n", nm, strings.Join(words[lo:hi], ", "))
	})
	fmt.Printf("def adjChunks : List (List Nat) := [%s]\n\n", strings.Join(names, ", "))
	reach := g.Reach(seeds)
	mask := new(big.Int)
	cnt := 0
	for i, r := range reach {
		if r {
			mask.SetBit(mask, i, 1)
			cnt++
		}
	}
	fmt.Printf("/-- candidate closed set: forward closure of the seeds computed by the extractor (%d nodes); Lean checks it -/\n", cnt)
	fmt.Printf("def reach : Nat := 0x%s\n\n", mask.Text(16))
}

// EmitNamed prints (id, encoded name) for the nodes selected by pick; a name is
// encoded as the number whose big-endian bytes are the name (numbers compare
// fast in the Lean kernel, strings do not).
func EmitNamed(def string, g *Graph, pick func(Node) bool) {
	var rows []string
	for i, n := range g.Nodes {
		if pick(n) {
			fmt.Printf("-- %d = %s\n", i, n.Name)
			rows = append(rows, fmt.Sprintf("(%d, 0x%s)", i, new(big.Int).SetBytes([]byte(n.Name)).Text(16)))
		}
	}
	fmt.Printf("def %s : List (Nat × Nat) := [%s]\n\n", def, strings.Join(rows, ", "))
}

func quoteJoin(xs []string) string {
	q := make([]string, len(xs))
	for i, x := range xs {
		q[i] = fmt.Sprintf("%q", x)
	}
	return strings.Join(q, ", ")
}

// EmitNames prints the node names as a comment block (documentation only).
func EmitNames(g *Graph, only []bool) {
	fmt.Printf("/- node names (documentation; `*` = in the candidate closed set)\n")
	for i, n := range g.Nodes {
		mark := " "
		if only != nil && only[i] {
			mark = "*"
		}
		fmt.Printf("%s %d %s\n", mark, i, strings.ReplaceAll(n.Name, "-/", "- /"))
	}
	fmt.Printf("-/\n")
}
